#!/bin/sh
# Idempotent: build the overlay venv /verif/.venv on top of /venv (repo deps) with
# z3-solver, cvc5, crosshair-tool from the offline wheelhouse.  Called by setup_cmd
# and by every check (the runner only sees committed files, so .venv may be absent).
set -e
HERE="$(cd "$(dirname "$0")" && pwd)"
V="$HERE/.venv"
STAMP="$V/.ok3"
if [ -f "$STAMP" ]; then exit 0; fi
(
  # serialise concurrent bootstraps
  exec 9>"$HERE/.bootstrap.lock"
  flock 9
  if [ -f "$STAMP" ]; then exit 0; fi
  rm -rf "$V"
  /venv/bin/python -m venv "$V" >/dev/null
  SP="$V/lib/python3.12/site-packages"
  echo "import site; site.addsitedir('/venv/lib/python3.12/site-packages')" > "$SP/_base.pth"
  PIP_NO_INDEX=1 "$V/bin/pip" install -q --no-index --find-links /opt/veriftools/wheels \
      z3-solver cvc5 crosshair-tool >/dev/null 2>"$V/pip.err" || { cat "$V/pip.err" >&2; exit 3; }
  "$V/bin/python" -c "import z3, cvc5, crosshair, jax" || exit 3
  touch "$STAMP"
)
