"""symjax: evaluate a Jaxpr (JAX's IR of the real genjax code path) over numpy object
arrays of z3 terms.

 * f32/f64 -> Real, ints -> Int, bool -> Bool, PRNG keys -> datatype Key (see keys below)
 * pjax.sample / pjax.adev_sample equations -> fresh outcome variables + a site record
 * pjax.log_density equations are opened (their impl is re-traced and encoded)
 * scan / bounded while are unrolled (static trip counts), cond/switch -> ite
 * transcendental functions are uninterpreted functions + sound local rewrites
 * optional log-domain mode: values of the form Log(P) are kept in normal form LogV(P)

Every element of an object array is a z3 ExprRef or a LogV (log-domain wrapper).
"""
from __future__ import annotations

import itertools
import math
from fractions import Fraction

import numpy as np
import z3

import jax
import jax.numpy as jnp
from jax.extend.core import Literal

RealS, IntS, BoolS = z3.RealSort(), z3.IntSort(), z3.BoolSort()


class Unsupported(Exception):
    """Raised when the encoder meets something it cannot encode: inconclusive, never a pass."""


# --------------------------------------------------------------------------- keys
Key = z3.Datatype("Key")
Key.declare("Root", ("rid", IntS))
Key.declare("Split", ("sp", Key), ("si", IntS))
Key.declare("Fold", ("fp", Key), ("fd", IntS))
Key.declare("Seeded", ("sd", IntS))
Key = Key.create()
Bits = z3.Function("Bits", Key, IntS, IntS)

# --------------------------------------------------------------------------- uninterpreted functions
_UF = {}


def UF(name, *sorts):
    k = (name, tuple(str(s) for s in sorts))
    if k not in _UF:
        _UF[k] = z3.Function(name, *sorts)
    return _UF[k]


Log = UF("Log", RealS, RealS)
Exp = UF("Exp", RealS, RealS)


def is_app_of(t, name, n=None):
    return z3.is_app(t) and t.decl().name() == name and (n is None or t.num_args() == n)


# --------------------------------------------------------------------------- log-domain wrapper
class LogV:
    """The real number Log(P) with P >= 0 a z3 Real term (P == 0 encodes -inf)."""

    __slots__ = ("P",)

    def __init__(self, P):
        self.P = P

    def __repr__(self):
        return f"LogV({self.P})"

    def term(self):
        return Log(self.P)


# --------------------------------------------------------------------------- extended reals (NaN / +-inf aware mode)
class XV:
    """An IEEE-like extended real: NaN, +inf, -inf or the finite real v (flags are z3 Bools, mutually exclusive).
    Signed zeros are not modelled (x / 0 takes the sign of x).  Used only where a harness feeds XV inputs; every rule
    without extended-real semantics refuses XV operands (Unsupported), so the mode can be incomplete but not wrong."""

    __slots__ = ("nan", "pinf", "ninf", "v")

    def __init__(self, nan, pinf, ninf, v):
        self.nan, self.pinf, self.ninf, self.v = nan, pinf, ninf, v

    @staticmethod
    def fin(v):
        return XV(FALSE_, FALSE_, FALSE_, v)

    def finite(self):
        return x_not(x_or(self.nan, self.pinf, self.ninf))

    def inf(self):
        return x_or(self.pinf, self.ninf)

    def __repr__(self):
        return f"XV(nan={self.nan}, +inf={self.pinf}, -inf={self.ninf}, v={self.v})"


FALSE_, TRUE_ = z3.BoolVal(False), z3.BoolVal(True)


def x_or(*xs):
    xs = [x for x in xs if not z3.is_false(x)]
    if any(z3.is_true(x) for x in xs):
        return TRUE_
    return FALSE_ if not xs else (xs[0] if len(xs) == 1 else z3.Or(*xs))


def x_and(*xs):
    xs = [x for x in xs if not z3.is_true(x)]
    if any(z3.is_false(x) for x in xs):
        return FALSE_
    return TRUE_ if not xs else (xs[0] if len(xs) == 1 else z3.And(*xs))


def x_not(x):
    if z3.is_true(x):
        return FALSE_
    if z3.is_false(x):
        return TRUE_
    return z3.Not(x)


def x_ite(c, a, b):
    if z3.is_true(c):
        return a
    if z3.is_false(c):
        return b
    if a.eq(b):
        return a
    return z3.If(c, a, b)


def to_xv(t):
    if isinstance(t, XV):
        return t
    if isinstance(t, LogV):
        raise Unsupported("log-domain value in extended-real mode")
    t = s_real(t)
    return XV.fin(t)


def any_xv(*ts):
    return any(isinstance(t, XV) for t in ts)


def xv_pos(a):
    return x_or(a.pinf, x_and(a.finite(), a.v > 0))


def xv_neg(a):
    return x_or(a.ninf, x_and(a.finite(), a.v < 0))


def xv_zero(a):
    return x_and(a.finite(), a.v == 0)


def xv_add(a, b):
    a, b = to_xv(a), to_xv(b)
    nan = x_or(a.nan, b.nan, x_and(a.pinf, b.ninf), x_and(a.ninf, b.pinf))
    return XV(nan, x_and(x_not(nan), x_or(a.pinf, b.pinf)), x_and(x_not(nan), x_or(a.ninf, b.ninf)), _plain_add(a.v, b.v))


def xv_neg_(a):
    return XV(a.nan, a.ninf, a.pinf, _plain_neg(a.v))


def xv_mul(a, b):
    a, b = to_xv(a), to_xv(b)
    nan = x_or(a.nan, b.nan, x_and(a.inf(), xv_zero(b)), x_and(xv_zero(a), b.inf()))
    isinf = x_and(x_not(nan), x_or(a.inf(), b.inf()))
    same = x_or(x_and(xv_pos(a), xv_pos(b)), x_and(xv_neg(a), xv_neg(b)))
    diff = x_or(x_and(xv_pos(a), xv_neg(b)), x_and(xv_neg(a), xv_pos(b)))
    return XV(nan, x_and(isinf, same), x_and(isinf, diff), _plain_mul(a.v, b.v))


def xv_div(a, b):
    a, b = to_xv(a), to_xv(b)
    nan = x_or(a.nan, b.nan, x_and(a.inf(), b.inf()), x_and(xv_zero(a), xv_zero(b)))
    isinf = x_and(x_not(nan), x_or(a.inf(), x_and(xv_zero(b), x_not(xv_zero(a)))))
    negb = xv_neg(b)
    pinf = x_and(isinf, x_or(x_and(xv_pos(a), x_not(negb)), x_and(xv_neg(a), negb)))
    ninf = x_and(isinf, x_or(x_and(xv_neg(a), x_not(negb)), x_and(xv_pos(a), negb)))
    v = x_ite(b.inf(), RV(0), a.v / x_ite(b.v == 0, RV(1), b.v) if not is_num(b.v) else (a.v / b.v if num_val(b.v) != 0 else a.v))
    return XV(nan, pinf, ninf, v)


def xv_sqrt(a):
    a = to_xv(a)
    return XV(x_or(a.nan, a.ninf, x_and(a.finite(), a.v < 0)), a.pinf, FALSE_, s_sqrt(a.v))


def xv_log(a):
    a = to_xv(a)
    return XV(x_or(a.nan, a.ninf, x_and(a.finite(), a.v < 0)), a.pinf, x_and(a.finite(), a.v == 0), Log(a.v))


def xv_exp(a):
    a = to_xv(a)
    return XV(a.nan, a.pinf, FALSE_, x_ite(a.ninf, RV(0), Exp(a.v) if not (is_num(a.v) and num_val(a.v) == 0) else RV(1)))


def xv_ite(c, a, b):
    a, b = to_xv(a), to_xv(b)
    return XV(x_ite(c, a.nan, b.nan), x_ite(c, a.pinf, b.pinf), x_ite(c, a.ninf, b.ninf), x_ite(c, a.v, b.v))


def xv_lt(a, b):
    a, b = to_xv(a), to_xv(b)
    return x_and(x_not(x_or(a.nan, b.nan)),
                 x_or(x_and(a.ninf, x_not(b.ninf)), x_and(b.pinf, x_not(a.pinf)), x_and(a.finite(), b.finite(), a.v < b.v)))


def xv_le(a, b):
    a, b = to_xv(a), to_xv(b)
    return x_and(x_not(x_or(a.nan, b.nan)), x_or(a.ninf, b.pinf, x_and(a.finite(), b.finite(), a.v <= b.v)))


def xv_eq(a, b):
    a, b = to_xv(a), to_xv(b)
    return x_and(x_not(x_or(a.nan, b.nan)),
                 x_or(x_and(a.pinf, b.pinf), x_and(a.ninf, b.ninf), x_and(a.finite(), b.finite(), a.v == b.v)))


def xv_max(a, b):
    a, b = to_xv(a), to_xv(b)
    nan = x_or(a.nan, b.nan)
    return XV(nan, x_and(x_not(nan), x_or(a.pinf, b.pinf)), x_and(x_not(nan), a.ninf, b.ninf),
              x_ite(a.ninf, b.v, x_ite(b.ninf, a.v, z3.If(a.v >= b.v, a.v, b.v))))


def xv_min(a, b):
    a, b = to_xv(a), to_xv(b)
    nan = x_or(a.nan, b.nan)
    return XV(nan, x_and(x_not(nan), a.pinf, b.pinf), x_and(x_not(nan), x_or(a.ninf, b.ninf)),
              x_ite(a.pinf, b.v, x_ite(b.pinf, a.v, z3.If(a.v <= b.v, a.v, b.v))))


def xv_abs(a):
    a = to_xv(a)
    return XV(a.nan, a.inf(), FALSE_, z3.If(a.v >= 0, a.v, -a.v))


def xv_same(a, b):
    """the two extended reals are the same value (NaN counts as equal to NaN): used for obligations"""
    a, b = to_xv(a), to_xv(b)
    return z3.And(a.nan == b.nan, a.pinf == b.pinf, a.ninf == b.ninf, z3.Implies(a.finite(), a.v == b.v))


def _plain_add(a, b):
    if is_num(a) and is_num(b):
        return RV(num_val(a) + num_val(b))
    if is_num(a) and num_val(a) == 0:
        return b
    if is_num(b) and num_val(b) == 0:
        return a
    return a + b


def _plain_neg(a):
    return RV(-num_val(a)) if is_num(a) else -a


def _plain_mul(a, b):
    if is_num(a) and is_num(b):
        return RV(num_val(a) * num_val(b))
    for x, y in ((a, b), (b, a)):
        if is_num(x) and num_val(x) == 1:
            return y
        if is_num(x) and num_val(x) == 0:
            return RV(0)
    return a * b


# --------------------------------------------------------------------------- scalars
def is_num(t):
    return z3.is_rational_value(t) or z3.is_int_value(t)


def num_val(t):
    if z3.is_int_value(t):
        return Fraction(t.as_long())
    return Fraction(t.numerator_as_long(), t.denominator_as_long())


def RV(x):
    if isinstance(x, Fraction):
        return z3.RealVal(f"{x.numerator}/{x.denominator}") if x.denominator != 1 else z3.RealVal(x.numerator)
    if isinstance(x, (int, np.integer)):
        return z3.RealVal(int(x))
    f = float(x)
    if math.isnan(f) or math.isinf(f):
        raise Unsupported(f"non-finite real literal {f}")
    return RV(Fraction(f))


def IV(x):
    return z3.IntVal(int(x))


def BV(x):
    return z3.BoolVal(bool(x))


TRUE, FALSE = z3.BoolVal(True), z3.BoolVal(False)


def lift_scalar(x, kind):
    """python / numpy scalar -> z3 value of the sort of dtype kind."""
    if isinstance(x, (z3.ExprRef, LogV)):
        return x
    if kind == "b":
        return BV(x)
    if kind in "iu":
        return IV(x)
    if kind == "f":
        f = float(x)
        if math.isinf(f) and f < 0:
            return LogV(z3.RealVal(0))
        if math.isnan(f):
            # NaN literals only occur in x != x guards; under the no-NaN assumption unreachable
            return z3.FreshReal("nan")
        if math.isinf(f):
            return z3.FreshReal("posinf")
        return RV(f)
    raise Unsupported(f"dtype kind {kind}")


def kind_of(dtype):
    try:
        if dtype == jax.dtypes.float0:
            return "f"          # float0 tangents (of integer inputs) carry no information: treated as real zeros
    except Exception:
        pass
    try:
        if jax.dtypes.issubdtype(dtype, jax.dtypes.prng_key):
            return "k"
    except Exception:
        pass
    k = np.dtype(dtype).kind
    if k == "V":
        return "k"
    return k


def lift_array(x, dtype=None):
    a = np.asarray(x)
    if a.dtype == object:
        return a
    if a.dtype == jax.dtypes.float0:
        out = np.empty(a.shape, dtype=object)
        out.fill(z3.RealVal(0))
        return out
    kind = kind_of(dtype if dtype is not None else a.dtype)
    out = np.empty(a.shape, dtype=object)
    for idx in np.ndindex(a.shape):
        out[idx] = lift_scalar(a[idx].item(), kind)
    return out


def obj(x):
    if isinstance(x, np.ndarray) and x.dtype == object:
        return x
    out = np.empty((), dtype=object)
    if isinstance(x, (z3.ExprRef, LogV)):
        out[()] = x
        return out
    a = np.asarray(x)
    if a.dtype == object:
        return a
    return lift_array(a)


# smart constructors -------------------------------------------------------------
def s_real(t):
    """coerce Int/Bool term to Real"""
    if isinstance(t, (LogV, XV)):
        return t
    if z3.is_bool(t):
        if z3.is_true(t):
            return RV(1)
        if z3.is_false(t):
            return RV(0)
        return z3.If(t, RV(1), RV(0))
    if z3.is_int(t):
        if z3.is_int_value(t):
            return RV(t.as_long())
        return z3.ToReal(t)
    return t


def unlog(t):
    if isinstance(t, XV):
        raise Unsupported("extended-real (NaN/inf aware) operand in a rule without extended-real semantics")
    return t.term() if isinstance(t, LogV) else t


def s_add(a, b):
    if any_xv(a, b):
        return xv_add(a, b)
    if isinstance(a, LogV) or isinstance(b, LogV):
        if isinstance(a, LogV) and isinstance(b, LogV):
            if is_num(a.P) and num_val(a.P) == 0 or is_num(b.P) and num_val(b.P) == 0:
                return LogV(z3.RealVal(0))
            c = _cancel_common_denominator(a.P, b.P)
            if c is None:
                c = _cancel_common_denominator(b.P, a.P)
            if c is not None:
                return LogV(c)
            return LogV(a.P * b.P)
        l, r = (a, b) if isinstance(a, LogV) else (b, a)
        if is_num(r) and num_val(r) == 0:
            return l
        if is_num(r):
            q = _as_log_const(num_val(r))
            if q is not None:
                return LogV(l.P * RV(q))
        if is_app_of(r, "Log", 1):
            return LogV(l.P * r.arg(0))
        return LogV(l.P * s_exp(r))
    if is_num(a) and is_num(b):
        v = num_val(a) + num_val(b)
        return IV(v) if z3.is_int(a) and z3.is_int(b) else RV(v)
    if is_num(a) and num_val(a) == 0:
        return b
    if is_num(b) and num_val(b) == 0:
        return a
    if is_nonneg(a) and is_nonneg(b):
        return mark_nonneg(a + b)
    return a + b


_NONZERO_CACHE = {}
_NONNEG = {}      # ids of z3 terms known to be >= 0 (values exp(.) of log-domain numbers and sums of those)


def mark_nonneg(t):
    if z3.is_expr(t):
        _NONNEG[t.get_id()] = t
    return t


def is_nonneg(t):
    if is_num(t):
        return num_val(t) >= 0
    return z3.is_expr(t) and t.get_id() in _NONNEG


def _provably_nonzero(d):
    """d != 0 for ALL values of its variables (no assumptions), decided by z3 with a short budget; cached"""
    k = d.get_id()
    if k not in _NONZERO_CACHE:
        s = z3.Solver()
        s.set("timeout", 2000)
        s.add(d == 0)
        _NONZERO_CACHE[k] = (str(s.check()) == "unsat", d)     # keep d alive so the id stays unique
    return _NONZERO_CACHE[k][0]


def _flatten_add(t, acc):
    if z3.is_add(t):
        for c in t.children():
            _flatten_add(c, acc)
    else:
        acc.append(t)
    return acc


def _cancel_common_denominator(x, d):
    """(sum_i n_i / d) * d  ->  sum_i n_i   when d is provably non-zero for all values.
    This is the shape logsumexp produces in log-domain mode: log(sum exp(a_i - m)) + m with m the (finite-guarded)
    maximum; the rewrite is an identity on the reals and removes the max-shift from the term the solver sees."""
    if is_num(d):
        return None
    adds = _flatten_add(x, [])
    nums = []
    for t in adds:
        if z3.is_div(t) and t.arg(1).eq(d):
            nums.append(t.arg(0))
        elif is_num(t) and num_val(t) == 0:
            continue
        else:
            return None
    if not nums or not _provably_nonzero(d):
        return None
    acc = nums[0]
    for n in nums[1:]:
        acc = acc + n
    return acc


def _as_log_const(v):
    """log-domain mode only: a float literal that is (to float32 precision) +-log(n) for a small integer n is
    read as exactly that logarithm (the code computed jnp.log(n) at trace time); returns the rational n or 1/n"""
    f = float(v)
    for n in range(1, 65):
        ln = math.log(n)
        if abs(f - ln) <= 2e-6 * max(1.0, ln):
            return Fraction(n)
        if abs(f + ln) <= 2e-6 * max(1.0, ln):
            return Fraction(1, n)
    return None


def s_neg(a):
    if any_xv(a):
        return xv_neg_(a)
    if isinstance(a, LogV):
        if z3.is_div(a.P) and is_num(a.P.arg(0)) and num_val(a.P.arg(0)) == 1:
            return LogV(a.P.arg(1))
        return LogV(1 / a.P)
    if is_num(a):
        v = -num_val(a)
        return IV(v) if z3.is_int(a) else RV(v)
    return -a


def s_sub(a, b):
    if any_xv(a, b):
        return xv_add(a, xv_neg_(to_xv(b)))
    if isinstance(a, LogV) or isinstance(b, LogV):
        if isinstance(a, LogV) and isinstance(b, LogV):
            return LogV(a.P / b.P)
        return s_add(a, s_neg(b))
    if is_num(a) and is_num(b):
        v = num_val(a) - num_val(b)
        return IV(v) if z3.is_int(a) and z3.is_int(b) else RV(v)
    if is_num(b) and num_val(b) == 0:
        return a
    return a - b


def s_mul(a, b):
    if any_xv(a, b):
        return xv_mul(a, b)
    if isinstance(a, LogV) or isinstance(b, LogV):
        l, r = (a, b) if isinstance(a, LogV) else (b, a)
        if isinstance(r, LogV):
            return l.term() * r.term()
        if is_num(r):
            v = num_val(r)
            if v == 1:
                return l
            if v == 0:
                return RV(0)
            if v.denominator == 1 and abs(v) <= 4:
                n = int(v)
                p = l.P
                acc = p
                for _ in range(abs(n) - 1):
                    acc = acc * p
                return LogV(acc if n > 0 else 1 / acc)
        if z3.is_app_of(r, z3.Z3_OP_ITE) and is_num(r.arg(1)) and is_num(r.arg(2)) and \
                {num_val(r.arg(1)), num_val(r.arg(2))} == {Fraction(0), Fraction(1)}:
            # Log(P) * indicator (one-hot selection of a log-probability): stays in the log domain;
            # indicator == 0 and P == 0 is 0 * -inf = NaN in floating point, recorded as a NaN condition
            c = r.arg(0) if num_val(r.arg(1)) == 1 else z3.Not(r.arg(0))
            NAN_CONDS.append(z3.And(l.P == 0, z3.Not(c)))
            return LogV(z3.If(c, l.P, RV(1)))
        # (possibly -inf) * non-constant: 0 * -inf is NaN -- recorded as a NaN condition of the current evaluation
        NAN_CONDS.append(z3.And(l.P == 0, r == 0))
        return z3.If(l.P == 0, z3.FreshReal("nan"), l.term() * r)
    if is_num(a) and is_num(b):
        v = num_val(a) * num_val(b)
        return IV(v) if z3.is_int(a) and z3.is_int(b) else RV(v)
    for x, y in ((a, b), (b, a)):
        if is_num(x):
            v = num_val(x)
            if v == 0:
                return x
            if v == 1:
                return y
    for x, y in ((a, b), (b, a)):
        if is_app_of(x, "Log", 1) and not is_num(y) and not is_num(x.arg(0)):
            # Log(t) * y with t possibly 0 and y possibly 0: 0 * -inf is NaN in floating point
            NAN_CONDS.append(z3.And(x.arg(0) == 0, y == 0))
    return a * b


def s_div(a, b):
    """real division"""
    if any_xv(a, b):
        return xv_div(a, b)
    if isinstance(a, LogV) or isinstance(b, LogV):
        if isinstance(b, LogV):
            b = b.term()
        if isinstance(a, LogV):
            if is_num(b) and num_val(b) == 1:
                return a
            a = a.term()
    if is_num(a) and is_num(b) and num_val(b) != 0:
        return RV(num_val(a) / num_val(b))
    if is_num(b) and num_val(b) == 1:
        return a
    return a / b


def s_idiv(a, b):
    """C-style truncating integer division (lax.div on ints)"""
    if is_num(a) and is_num(b) and num_val(b) != 0:
        x, y = int(num_val(a)), int(num_val(b))
        q = abs(x) // abs(y)
        return IV(q if (x >= 0) == (y >= 0) else -q)
    # z3 '/' on Int is floor-like (euclidean); emulate truncation
    q = a / b
    return z3.If(z3.And(a - q * b != 0, (a < 0) != (b < 0), z3.Not(z3.And(a >= 0, b >= 0))), s_trunc_fix(a, b, q), q)


def s_trunc_fix(a, b, q):
    # z3 integer division is Euclidean: a = q*b + r, 0 <= r < |b|.
    # truncating quotient = q if a >= 0 else (q + 1 if b > 0 else q - 1) when r != 0
    return z3.If(a >= 0, q, z3.If(b > 0, q + 1, q - 1))


def s_irem(a, b):
    return s_sub(a, s_mul(s_idiv(a, b), b))


def s_ite(c, a, b):
    if z3.is_true(c):
        return a
    if z3.is_false(c):
        return b
    if any_xv(a, b):
        return xv_ite(c, a, b)
    if isinstance(a, LogV) or isinstance(b, LogV):
        a, b = to_logv(a), to_logv(b)
        return LogV(z3.If(c, a.P, b.P))
    if a.eq(b):
        return a
    if a.sort() != b.sort():
        a, b = s_real(a), s_real(b)
    return z3.If(c, a, b)


def to_logv(t):
    """view a real term as a log-domain value"""
    if isinstance(t, LogV):
        return t
    if is_num(t):
        v = num_val(t)
        if v == 0:
            return LogV(RV(1))
        q = _as_log_const(v)
        if q is not None:
            return LogV(RV(q))
    if is_app_of(t, "Log", 1):
        return LogV(t.arg(0))
    return LogV(s_exp(t))


def s_exp(a):
    if any_xv(a):
        return xv_exp(a)
    if isinstance(a, LogV):
        return mark_nonneg(a.P)       # LogV invariant: P >= 0
    if is_app_of(a, "Log", 1):
        return a.arg(0)
    if z3.is_mul(a) and a.num_args() == 2:
        # exp(k * Log t) = t^k for a small integer k
        for x, y in ((a.arg(0), a.arg(1)), (a.arg(1), a.arg(0))):
            if is_num(x) and is_app_of(y, "Log", 1):
                v = num_val(x)
                if v.denominator == 1 and 1 <= abs(v) <= 6:
                    t = y.arg(0)
                    acc = t
                    for _ in range(abs(int(v)) - 1):
                        acc = acc * t
                    return acc if v > 0 else 1 / acc
    if is_num(a) and num_val(a) == 0:
        return RV(1)
    return Exp(a)


LOGMODE = [False]
XVMODE = [False]     # extended-real mode: set by sym_trace when an input is an XV
NAN_CONDS = []      # conditions under which 0 * (-inf) was computed (NaN in floating point)


def s_log(a):
    if is_app_of(a, "Exp", 1):
        return a.arg(0)
    if LOGMODE[0]:
        return LogV(a)
    if is_num(a) and num_val(a) == 1:
        return RV(0)
    return Log(a)


def _cmp_args(a, b):
    if isinstance(a, LogV) and isinstance(b, LogV):
        return a.P, b.P
    a, b = unlog(a), unlog(b)
    if a.sort() != b.sort():
        a, b = s_real(a), s_real(b)
    return a, b


def _fold_cmp(op):
    refl = op(1, 1)      # value of `x op x`

    def f(a, b):
        if any_xv(a, b):
            return {"lt": xv_lt(a, b), "le": xv_le(a, b), "gt": xv_lt(b, a), "ge": xv_le(b, a), "eq": xv_eq(a, b),
                    "ne": x_not(xv_eq(a, b))}[op.__name__]
        a, b = _cmp_args(a, b)
        if is_num(a) and is_num(b):
            return BV(op(num_val(a), num_val(b)))
        if a.eq(b):
            return BV(refl)
        if z3.is_bool(a) and (z3.is_true(a) or z3.is_false(a)) and z3.is_bool(b) and (z3.is_true(b) or z3.is_false(b)):
            return BV(op(z3.is_true(a), z3.is_true(b)))
        return op(a, b)
    return f


import operator as _op

s_lt, s_le, s_gt, s_ge = map(_fold_cmp, (_op.lt, _op.le, _op.gt, _op.ge))
s_eq, s_ne = _fold_cmp(_op.eq), _fold_cmp(_op.ne)


def _is_neginf(a):
    return isinstance(a, LogV) and is_num(a.P) and num_val(a.P) == 0


def s_max(a, b):
    if any_xv(a, b):
        return xv_max(a, b)
    if _is_neginf(a):
        return b
    if _is_neginf(b):
        return a
    if isinstance(a, LogV) != isinstance(b, LogV):
        a, b = to_logv(a), to_logv(b)
    if isinstance(a, LogV) and isinstance(b, LogV):
        if is_num(a.P) and num_val(a.P) == 0:
            return b
        if is_num(b.P) and num_val(b.P) == 0:
            return a
        return LogV(z3.If(a.P >= b.P, a.P, b.P))
    a, b = unlog(a), unlog(b)
    if z3.is_bool(a):
        return s_or(a, b)
    if is_num(a) and is_num(b):
        return a if num_val(a) >= num_val(b) else b
    if a.eq(b):
        return a
    return z3.If(a >= b, a, b)


def s_min(a, b):
    if any_xv(a, b):
        return xv_min(a, b)
    if _is_neginf(a):
        return a
    if _is_neginf(b):
        return b
    if isinstance(a, LogV) != isinstance(b, LogV):
        a, b = to_logv(a), to_logv(b)
    if isinstance(a, LogV) and isinstance(b, LogV):
        return LogV(z3.If(a.P <= b.P, a.P, b.P))
    a, b = unlog(a), unlog(b)
    if z3.is_bool(a):
        return s_and(a, b)
    if is_num(a) and is_num(b):
        return a if num_val(a) <= num_val(b) else b
    if a.eq(b):
        return a
    return z3.If(a <= b, a, b)


def s_and(a, b):
    if z3.is_false(a) or z3.is_false(b):
        return FALSE
    if z3.is_true(a):
        return b
    if z3.is_true(b):
        return a
    return z3.And(a, b)


def s_or(a, b):
    if z3.is_true(a) or z3.is_true(b):
        return TRUE
    if z3.is_false(a):
        return b
    if z3.is_false(b):
        return a
    return z3.Or(a, b)


def s_not(a):
    if z3.is_true(a):
        return FALSE
    if z3.is_false(a):
        return TRUE
    return z3.Not(a)


# --------------------------------------------------------------------------- context
class Site:
    """A pjax.sample / adev_sample equation met during evaluation."""

    def __init__(self, name, prim_name, args, outs, sample_shape, inner, eqn, path, sid=None):
        self.sid = sid
        self.name = name
        self.prim_name = prim_name
        self.args = args          # list of object arrays (flat, consts + flat args)
        self.outs = outs          # list of object arrays of fresh variables
        self.sample_shape = tuple(sample_shape or ())
        self.inner = inner        # hidden params of the PPPrimitive
        self.eqn = eqn
        self.path = path          # loop-iteration path (tuple) at which the site was met

    def arg_tree(self):
        """positional args / kwargs as passed to the sampler (object arrays)"""
        nc = self.inner.get("num_consts", 0)
        flat = self.args[nc:]
        tree = self.inner["in_tree"]
        return jax.tree_util.tree_unflatten(tree, flat)


class Ctx:
    def __init__(self, logmode=False, prefix="s", scripted=None):
        self.counter = itertools.count()
        self.sites: list[Site] = []
        self.logmode = logmode
        self.prefix = prefix
        self.path = ()
        self.consumed = []       # (kind, key term) for random_bits/split/fold_in
        self.assumptions = []    # side conditions introduced by contract stubs (e.g. cholesky)
        self.nprims = 0
        self.prims_seen = set()
        self._site_counts = {}
        self.scripted = scripted  # optional: callable(site_index, aval) -> object array (shared outcomes)

    def site_id(self):
        k = self._site_counts.get(self.path, 0)
        self._site_counts[self.path] = k + 1
        return tuple(self.path) + (k,)

    def fresh(self, aval, prefix=None):
        prefix = prefix or self.prefix
        return fresh_like(aval.shape, aval.dtype, f"{prefix}{next(self.counter)}")


def fresh_like(shape, dtype, name):
    kind = kind_of(dtype)
    out = np.empty(shape, dtype=object)
    for idx in np.ndindex(*shape):
        n = name + ("_" + "_".join(map(str, idx)) if idx else "")
        if kind == "b":
            out[idx] = z3.Bool(n)
        elif kind in "iu":
            out[idx] = z3.Int(n)
        elif kind == "f":
            out[idx] = z3.Real(n)
        elif kind == "k":
            out[idx] = z3.Const(n, Key)
        else:
            raise Unsupported(f"fresh var of dtype {dtype}")
    return out


# --------------------------------------------------------------------------- rules
RULES = {}


def rule(*names):
    def deco(f):
        for n in names:
            RULES[n] = f
        return f
    return deco


def ew(f):
    def r(ctx, eqn, *args):
        args = np.broadcast_arrays(*[obj(a) for a in args])
        out = np.empty(args[0].shape, dtype=object)
        for idx in np.ndindex(out.shape):
            out[idx] = f(*[a[idx] for a in args])
        return out
    return r


def out_kind(eqn, i=0):
    return kind_of(eqn.outvars[i].aval.dtype)


def in_kind(eqn, i=0):
    return kind_of(eqn.invars[i].aval.dtype)


RULES["add"] = ew(s_add)
RULES["add_any"] = ew(s_add)
RULES["sub"] = ew(s_sub)
RULES["neg"] = ew(s_neg)
RULES["max"] = ew(s_max)
RULES["min"] = ew(s_min)
RULES["exp"] = ew(s_exp)
RULES["log"] = ew(lambda a: xv_log(a) if isinstance(a, XV) else s_log(unlog(a)))
RULES["log1p"] = ew(lambda a: xv_log(xv_add(RV(1), a)) if isinstance(a, XV) else s_log(s_add(RV(1), unlog(a))))
RULES["expm1"] = ew(lambda a: s_sub(s_exp(a), RV(1)))
RULES["exp2"] = ew(lambda a: UF("Exp2", RealS, RealS)(unlog(a)))
RULES["lt"] = ew(s_lt)
RULES["le"] = ew(s_le)
RULES["gt"] = ew(s_gt)
RULES["ge"] = ew(s_ge)
RULES["eq"] = ew(s_eq)
RULES["ne"] = ew(s_ne)
RULES["lt_to"] = ew(s_lt)
RULES["le_to"] = ew(s_le)
RULES["stop_gradient"] = lambda ctx, eqn, a: a
RULES["copy"] = lambda ctx, eqn, a: a
RULES["copy_p"] = lambda ctx, eqn, a: a
RULES["optimization_barrier"] = lambda ctx, eqn, *a: list(a)
RULES["real"] = lambda ctx, eqn, a: a
RULES["reduce_precision"] = lambda ctx, eqn, a: a
RULES["is_finite"] = ew(lambda a: a.finite() if isinstance(a, XV) else (s_gt(a.P, RV(0)) if isinstance(a, LogV) else TRUE))
RULES["square"] = ew(lambda a: xv_mul(a, a) if isinstance(a, XV) else s_mul(unlog(a), unlog(a)))
RULES["abs"] = ew(lambda a: xv_abs(a) if isinstance(a, XV) else (lambda t: t if is_nonneg(t) else (s_neg(t) if is_num(t) else z3.If(t >= 0, t, -t)))(unlog(a)))
RULES["sign"] = ew(lambda a: XV(a.nan, FALSE_, FALSE_, z3.If(xv_pos(a), RV(1), z3.If(xv_neg(a), RV(-1), RV(0)))) if isinstance(a, XV) else (lambda t, one, zero, m: z3.If(t > zero, one, z3.If(t < zero, m, zero)))(unlog(a), *( (IV(1), IV(0), IV(-1)) if z3.is_int(unlog(a)) else (RV(1), RV(0), RV(-1)))))
def _floor(a):
    a = unlog(a)
    if is_num(a):
        return RV(math.floor(num_val(a)))
    return z3.ToReal(z3.ToInt(a))


def _ceil(a):
    a = unlog(a)
    if is_num(a):
        return RV(math.ceil(num_val(a)))
    return -z3.ToReal(z3.ToInt(-a))


RULES["floor"] = ew(_floor)
RULES["ceil"] = ew(_ceil)
RULES["round"] = ew(lambda a: UF("Round", RealS, RealS)(unlog(a)))


@rule("mul")
def r_mul(ctx, eqn, a, b):
    if out_kind(eqn) == "b":
        return ew(s_and)(ctx, eqn, a, b)
    return ew(s_mul)(ctx, eqn, a, b)


@rule("div")
def r_div(ctx, eqn, a, b):
    if out_kind(eqn) in "iu":
        return ew(s_idiv)(ctx, eqn, a, b)
    return ew(s_div)(ctx, eqn, a, b)


@rule("rem")
def r_rem(ctx, eqn, a, b):
    if out_kind(eqn) in "iu":
        return ew(s_irem)(ctx, eqn, a, b)
    return ew(lambda x, y: UF("Fmod", RealS, RealS, RealS)(unlog(x), unlog(y)))(ctx, eqn, a, b)


@rule("and")
def r_and(ctx, eqn, a, b):
    if out_kind(eqn) == "b":
        return ew(s_and)(ctx, eqn, a, b)
    return ew(lambda x, y: UF("BitAnd", IntS, IntS, IntS)(x, y))(ctx, eqn, a, b)


@rule("or")
def r_or(ctx, eqn, a, b):
    if out_kind(eqn) == "b":
        return ew(s_or)(ctx, eqn, a, b)
    return ew(lambda x, y: UF("BitOr", IntS, IntS, IntS)(x, y))(ctx, eqn, a, b)


@rule("xor")
def r_xor(ctx, eqn, a, b):
    if out_kind(eqn) == "b":
        return ew(lambda x, y: s_ne(x, y))(ctx, eqn, a, b)
    return ew(lambda x, y: UF("BitXor", IntS, IntS, IntS)(x, y))(ctx, eqn, a, b)


@rule("not")
def r_not(ctx, eqn, a):
    if out_kind(eqn) == "b":
        return ew(s_not)(ctx, eqn, a)
    return ew(lambda x: UF("BitNot", IntS, IntS)(x))(ctx, eqn, a)


def _uf1(name):
    f = UF(name, RealS, RealS)
    return ew(lambda a: f(s_real(unlog(a))))


def _lgamma_rule(ctx, eqn, a):
    f = UF("Lgamma", RealS, RealS)

    def one(x):
        x = s_real(unlog(x))
        if is_num(x):
            v = num_val(x)
            if v.denominator == 1 and 1 <= v <= 12:
                return s_log(RV(math.factorial(int(v) - 1)))
        return f(x)
    return ew(one)(ctx, eqn, a)


for _n, _u in [("sin", "Sin"), ("cos", "Cos"), ("tan", "Tan"), ("tanh", "Tanh"), ("lgamma", "Lgamma"),
               ("digamma", "Digamma"), ("erf", "Erf"), ("erfc", "Erfc"), ("erf_inv", "ErfInv"),
               ("asin", "Asin"), ("acos", "Acos"), ("atan", "Atan"), ("sinh", "Sinh"), ("cosh", "Cosh"),
               ("asinh", "Asinh"), ("acosh", "Acosh"), ("atanh", "Atanh"), ("cbrt", "Cbrt"),
               ("bessel_i0e", "BesselI0e"), ("bessel_i1e", "BesselI1e")]:
    RULES[_n] = _uf1(_u)
RULES["lgamma"] = _lgamma_rule

for _n, _u in [("atan2", "Atan2"), ("igamma", "Igamma"), ("igammac", "Igammac"), ("nextafter", "Nextafter"),
               ("random_gamma_grad", "RandomGammaGrad"), ("polygamma", "Polygamma"), ("zeta", "Zeta")]:
    RULES[_n] = (lambda u: ew(lambda a, b: UF(u, RealS, RealS, RealS)(s_real(unlog(a)), s_real(unlog(b)))))(_u)

RULES["regularized_incomplete_beta"] = ew(
    lambda a, b, c: UF("Betainc", RealS, RealS, RealS, RealS)(unlog(a), unlog(b), unlog(c)))

Sqrt = UF("Sqrt", RealS, RealS)


def s_sqrt(a):
    if any_xv(a):
        return xv_sqrt(a)
    a = unlog(a)
    if is_num(a):
        v = num_val(a)
        if v >= 0:
            rn, rd = math.isqrt(v.numerator), math.isqrt(v.denominator)
            if rn * rn == v.numerator and rd * rd == v.denominator:
                return RV(Fraction(rn, rd))
    return Sqrt(a)


RULES["sqrt"] = ew(s_sqrt)
RULES["rsqrt"] = ew(lambda a: s_div(RV(1), s_sqrt(a)))


@rule("logistic")
def r_logistic(ctx, eqn, a):
    return ew(lambda x: s_div(RV(1), s_add(RV(1), s_exp(s_neg(x if isinstance(x, XV) else unlog(x))))))(ctx, eqn, a)


@rule("integer_pow")
def r_integer_pow(ctx, eqn, a):
    y = eqn.params["y"]

    def f(v):
        if isinstance(v, XV):
            n = abs(y)
            if n == 0:
                return XV.fin(RV(1))
            r = v
            for _ in range(n - 1):
                r = xv_mul(r, v)
            return r if y > 0 else xv_div(RV(1), r)
        v = unlog(v)
        n = abs(y)
        if n == 0:
            return RV(1) if not z3.is_int(v) else IV(1)
        r = v
        for _ in range(n - 1):
            r = s_mul(r, v)
        return r if y > 0 else s_div(RV(1), r)
    return ew(f)(ctx, eqn, a)


@rule("pow")
def r_pow(ctx, eqn, a, b):
    def f(x, y):
        if isinstance(x, XV) and not isinstance(y, XV) and is_num(y) and num_val(y).denominator == 1 and 0 <= num_val(y) <= 6:
            r = XV.fin(RV(1))
            for _ in range(int(num_val(y))):
                r = xv_mul(r, x)
            return r
        x, y = unlog(x), unlog(y)
        if is_num(y):
            v = num_val(y)
            if v.denominator == 1 and 0 <= v <= 6:
                r = RV(1)
                for _ in range(int(v)):
                    r = s_mul(r, s_real(x))
                return r
        return UF("Pow", RealS, RealS, RealS)(s_real(x), s_real(y))
    return ew(f)(ctx, eqn, a, b)


@rule("xlogy")
def r_xlogy(ctx, eqn, a, b):
    # xlogy(x, y) = 0 if x == 0 else x * log y
    def f(x, y):
        x, y = s_real(unlog(x)), s_real(unlog(y))
        if is_num(x) and num_val(x) == 0:
            return RV(0)
        ly = unlog(s_log(y)) if not LOGMODE[0] else Log(y)
        t = s_mul(x, ly)
        if is_num(x):
            return t
        return z3.If(x == 0, RV(0), t)
    return ew(f)(ctx, eqn, a, b)


@rule("xlog1py")
def r_xlog1py(ctx, eqn, a, b):
    def f(x, y):
        x, y = s_real(unlog(x)), s_real(unlog(y))
        if is_num(x) and num_val(x) == 0:
            return RV(0)
        t = s_mul(x, Log(s_add(RV(1), y)))
        if is_num(x):
            return t
        return z3.If(x == 0, RV(0), t)
    return ew(f)(ctx, eqn, a, b)


@rule("select_n")
def r_select_n(ctx, eqn, c, *cases):
    ck = in_kind(eqn, 0)

    def f(p, *cs):
        if ck == "b":
            assert len(cs) == 2
            return s_ite(p, cs[1], cs[0])
        acc = cs[-1]
        for i in range(len(cs) - 2, -1, -1):
            acc = s_ite(s_eq(p, IV(i)), cs[i], acc)
        return acc
    return ew(f)(ctx, eqn, c, *cases)


@rule("clamp")
def r_clamp(ctx, eqn, lo, x, hi):
    return ew(lambda l, v, h: s_min(s_max(v, l), h))(ctx, eqn, lo, x, hi)


@rule("convert_element_type")
def r_convert(ctx, eqn, a):
    new = kind_of(eqn.params["new_dtype"])
    old = in_kind(eqn)
    if new == old:
        return a
    if new == "f":
        if XVMODE[0]:
            return ew(lambda v: to_xv(s_real(v)))(ctx, eqn, a)      # every float is an extended real in this mode
        return ew(s_real)(ctx, eqn, a)
    if new in "iu" and old in "iu":
        return a
    if new in "iu" and old == "b":
        return ew(lambda v: s_ite(v, IV(1), IV(0)))(ctx, eqn, a)
    if new == "b" and old in "iu":
        return ew(lambda v: s_ne(v, IV(0)))(ctx, eqn, a)
    if new == "b" and old == "f":
        return ew(lambda v: s_ne(unlog(v), RV(0)))(ctx, eqn, a)
    if new in "iu" and old == "f":
        # truncation toward zero
        def f(v):
            v = unlog(v)
            if is_num(v):
                x = num_val(v)
                return IV(int(x))  # int() truncates toward zero
            return z3.If(v >= 0, z3.ToInt(v), -z3.ToInt(-v))
        return ew(f)(ctx, eqn, a)
    raise Unsupported(f"convert {old}->{new}")


# ---- structural -----------------------------------------------------------------
@rule("broadcast_in_dim")
def r_broadcast_in_dim(ctx, eqn, a, *dyn):
    shape = eqn.params["shape"]
    bdims = eqn.params["broadcast_dimensions"]
    a = obj(a)
    newshape = [1] * len(shape)
    for i, d in enumerate(bdims):
        newshape[d] = a.shape[i]
    return np.broadcast_to(a.reshape(newshape), shape).copy()


RULES["reshape"] = lambda ctx, eqn, a, *d: obj(a).reshape(eqn.params["new_sizes"])
RULES["squeeze"] = lambda ctx, eqn, a: np.squeeze(obj(a), axis=tuple(eqn.params["dimensions"]))
RULES["expand_dims"] = lambda ctx, eqn, a: np.expand_dims(obj(a), tuple(eqn.params["dimensions"]))
RULES["transpose"] = lambda ctx, eqn, a: np.transpose(obj(a), eqn.params["permutation"])
RULES["rev"] = lambda ctx, eqn, a: np.flip(obj(a), axis=tuple(eqn.params["dimensions"]))
RULES["concatenate"] = lambda ctx, eqn, *xs: np.concatenate([obj(x) for x in xs], axis=eqn.params["dimension"])
RULES["stack"] = lambda ctx, eqn, *xs: np.stack([obj(x) for x in xs], axis=eqn.params["axis"])
RULES["unstack"] = lambda ctx, eqn, a: [x for x in np.moveaxis(obj(a), eqn.params["axis"], 0)]


@rule("split")
def r_split_arr(ctx, eqn, a):
    sizes = eqn.params["sizes"]
    axis = eqn.params["axis"]
    idx = np.cumsum(sizes)[:-1]
    return list(np.split(obj(a), idx, axis=axis))


@rule("iota")
def r_iota(ctx, eqn, *dyn):
    shape = eqn.params["shape"]
    dim = eqn.params["dimension"]
    ar = np.arange(shape[dim]).reshape([-1 if d == dim else 1 for d in range(len(shape))])
    full = np.broadcast_to(ar, shape)
    return lift_array(full, eqn.params["dtype"])


@rule("slice")
def r_slice(ctx, eqn, a):
    a = obj(a)
    st = eqn.params["start_indices"]
    li = eqn.params["limit_indices"]
    sr = eqn.params["strides"] or (1,) * a.ndim
    return a[tuple(slice(s, l, k) for s, l, k in zip(st, li, sr))]


@rule("pad")
def r_pad(ctx, eqn, a, pv):
    """lax.pad: interior padding between elements, then low/high padding (negative = crop)"""
    a = obj(a)
    pv = obj(pv).item()
    cfg = eqn.params["padding_config"]
    out = a
    for ax, (lo, hi, interior) in enumerate(cfg):
        n = out.shape[ax]
        # interior
        if interior > 0 and n > 1:
            m = n + (n - 1) * interior
            shp = list(out.shape)
            shp[ax] = m
            tmp = np.empty(shp, dtype=object)
            tmp.fill(pv)
            idx = [slice(None)] * out.ndim
            idx[ax] = slice(0, m, interior + 1)
            tmp[tuple(idx)] = out
            out = tmp
        n = out.shape[ax]
        # low / high (negative crops)
        start = max(0, -lo)
        stop = n - max(0, -hi)
        idx = [slice(None)] * out.ndim
        idx[ax] = slice(start, max(start, stop))
        out = out[tuple(idx)]
        plo, phi = max(0, lo), max(0, hi)
        if plo or phi:
            shp = list(out.shape)
            shp[ax] = out.shape[ax] + plo + phi
            tmp = np.empty(shp, dtype=object)
            tmp.fill(pv)
            idx = [slice(None)] * out.ndim
            idx[ax] = slice(plo, plo + out.shape[ax])
            tmp[tuple(idx)] = out
            out = tmp
    return out


def _const_int(t):
    if is_num(t):
        return int(num_val(t))
    return None


def select_index(arr, axis, i, n_out=None):
    """arr[..., i, ...] along axis for symbolic Int i (clamped to range like XLA)."""
    arr = obj(arr)
    n = arr.shape[axis]
    ci = _const_int(i)
    if ci is not None:
        return np.take(arr, min(max(ci, 0), n - 1), axis=axis)
    res = np.take(arr, n - 1, axis=axis)
    for k in range(n - 2, -1, -1):
        cand = np.take(arr, k, axis=axis)
        cond = (i <= k) if k == 0 else (i == k)
        res = ew(lambda a, b, c=cond: s_ite(c, a, b))(None, None, cand, res)
    return res


@rule("dynamic_slice")
def r_dynamic_slice(ctx, eqn, a, *starts):
    a = obj(a)
    sizes = eqn.params["slice_sizes"]
    out = a
    for ax, (st, sz) in enumerate(zip(starts, sizes)):
        st = obj(st).item()
        n = out.shape[ax]
        ci = _const_int(st)
        if ci is not None:
            c = min(max(ci, 0), n - sz)
            out = np.take(out, range(c, c + sz), axis=ax)
        elif sz == n:
            pass
        else:
            # clamp start to [0, n - sz]
            pieces = []
            for off in range(sz):
                window = np.stack([np.take(out, k + off, axis=ax) for k in range(n - sz + 1)], axis=0)
                pieces.append(select_index(window, 0, st))
            out = np.stack(pieces, axis=ax)
    return out


@rule("dynamic_update_slice")
def r_dynamic_update_slice(ctx, eqn, a, upd, *starts):
    a = obj(a).copy()
    upd = obj(upd)
    cs = [_const_int(obj(s).item()) for s in starts]
    if all(c is not None for c in cs):
        cs = [min(max(c, 0), n - u) for c, n, u in zip(cs, a.shape, upd.shape)]
        a[tuple(slice(c, c + u) for c, u in zip(cs, upd.shape))] = upd
        return a
    # symbolic starts: elementwise ite
    sts = [obj(s).item() for s in starts]
    sts = [s_min(s_max(s, IV(0)), IV(n - u)) for s, n, u in zip(sts, a.shape, upd.shape)]
    out = np.empty(a.shape, dtype=object)
    for idx in np.ndindex(a.shape):
        val = a[idx]
        for uidx in np.ndindex(upd.shape):
            cond = TRUE
            for d in range(a.ndim):
                cond = s_and(cond, s_eq(s_add(sts[d], IV(uidx[d])), IV(idx[d])))
            val = s_ite(cond, upd[uidx], val)
        out[idx] = val
    return out


@rule("gather")
def r_gather(ctx, eqn, operand, indices):
    """General XLA gather by direct semantics; symbolic indices become ite chains."""
    operand, indices = obj(operand), obj(indices)
    dn = eqn.params["dimension_numbers"]
    slice_sizes = eqn.params["slice_sizes"]
    mode = eqn.params.get("mode")
    fill = eqn.params.get("fill_value")
    out_shape = eqn.outvars[0].aval.shape
    offset_dims = tuple(dn.offset_dims)
    collapsed = tuple(dn.collapsed_slice_dims)
    start_index_map = tuple(dn.start_index_map)
    op_batch = tuple(getattr(dn, "operand_batching_dims", ()))
    idx_batch = tuple(getattr(dn, "start_indices_batching_dims", ()))
    batch_dims_out = [d for d in range(len(out_shape)) if d not in offset_dims]
    # dims of operand that appear as offset dims
    off_operand_dims = [d for d in range(operand.ndim) if d not in collapsed and d not in op_batch]
    mode_s = str(mode)
    is_fill = "FILL" in mode_s.upper()
    out = np.empty(out_shape, dtype=object)
    kind = out_kind(eqn)
    for oidx in np.ndindex(*out_shape):
        bidx = tuple(oidx[d] for d in batch_dims_out)      # index into indices[..., :]
        start = indices[bidx]                               # vector of length len(start_index_map)
        # full operand index: start along mapped dims + offsets
        full = [IV(0)] * operand.ndim
        for k, d in enumerate(start_index_map):
            full[d] = start[k]
        for k, d in enumerate(op_batch):
            full[d] = IV(bidx[idx_batch[k]])
        valid = TRUE
        for d in range(operand.ndim):
            n, sz = operand.shape[d], slice_sizes[d]
            st = full[d]
            if d in start_index_map:
                if is_fill:
                    valid = s_and(valid, s_and(s_ge(st, IV(0)), s_le(st, IV(n - sz))))
                else:
                    st = s_min(s_max(st, IV(0)), IV(n - sz))
            full[d] = st
        for k, d in enumerate(off_operand_dims):
            full[d] = s_add(full[d], IV(oidx[offset_dims[k]]))
        # select operand[full]
        val = operand
        for d in range(operand.ndim):
            val = select_index(val, 0, full[d])
        val = obj(val).item()
        if is_fill:
            fv = lift_scalar(fill if fill is not None else (float("nan") if kind == "f" else 0), kind) if not z3.is_true(valid) else None
            val = s_ite(valid, val, fv) if fv is not None else val
        out[oidx] = val
    return out


def _scatter(ctx, eqn, operand, indices, updates, combine):
    operand, indices, updates = obj(operand).copy(), obj(indices), obj(updates)
    dn = eqn.params["dimension_numbers"]
    uwd = tuple(dn.update_window_dims)
    iwd = tuple(dn.inserted_window_dims)
    sdod = tuple(dn.scatter_dims_to_operand_dims)
    op_batch = tuple(getattr(dn, "operand_batching_dims", ()))
    idx_batch = tuple(getattr(dn, "scatter_indices_batching_dims", ()))
    scatter_dims_upd = [d for d in range(updates.ndim) if d not in uwd]
    window_operand_dims = [d for d in range(operand.ndim) if d not in iwd and d not in op_batch]
    for uidx in np.ndindex(*updates.shape):
        sidx = tuple(uidx[d] for d in scatter_dims_upd)
        start = indices[sidx]
        full = [IV(0)] * operand.ndim
        for k, d in enumerate(sdod):
            full[d] = start[k]
        for k, d in enumerate(op_batch):
            full[d] = IV(sidx[idx_batch[k]])
        for k, d in enumerate(window_operand_dims):
            full[d] = s_add(full[d], IV(uidx[uwd[k]]))
        cs = [_const_int(f) for f in full]
        if all(c is not None for c in cs):
            if all(0 <= c < n for c, n in zip(cs, operand.shape)):
                operand[tuple(cs)] = combine(operand[tuple(cs)], updates[uidx])
            continue
        for oidx in np.ndindex(*operand.shape):
            cond = TRUE
            for d in range(operand.ndim):
                cond = s_and(cond, s_eq(full[d], IV(oidx[d])))
            if z3.is_false(cond):
                continue
            operand[oidx] = s_ite(cond, combine(operand[oidx], updates[uidx]), operand[oidx])
    return operand


RULES["scatter"] = lambda ctx, eqn, o, i, u: _scatter(ctx, eqn, o, i, u, lambda old, new: new)
RULES["scatter-add"] = lambda ctx, eqn, o, i, u: _scatter(ctx, eqn, o, i, u, s_add)
RULES["scatter_add"] = RULES["scatter-add"]
RULES["scatter-mul"] = lambda ctx, eqn, o, i, u: _scatter(ctx, eqn, o, i, u, s_mul)


# ---- reductions -------------------------------------------------------------------
def _reduce(f, unit_fn):
    def r(ctx, eqn, a):
        a = obj(a)
        axes = tuple(eqn.params["axes"])
        if not axes:
            return a
        a2 = np.moveaxis(a, axes, tuple(range(len(axes))))
        flat = a2.reshape((-1,) + a2.shape[len(axes):])
        if flat.shape[0] == 0:
            out = np.empty(flat.shape[1:], dtype=object)
            out.fill(unit_fn(out_kind(eqn)))
            return out
        out = flat[0]
        for k in range(1, flat.shape[0]):
            out = ew(f)(ctx, eqn, out, flat[k])
        return obj(out)
    return r


RULES["reduce_sum"] = _reduce(s_add, lambda k: RV(0) if k == "f" else IV(0))
RULES["reduce_max"] = _reduce(s_max, lambda k: LogV(z3.RealVal(0)))
RULES["reduce_min"] = _reduce(s_min, lambda k: z3.FreshReal("posinf"))
RULES["reduce_and"] = _reduce(s_and, lambda k: TRUE)
RULES["reduce_or"] = _reduce(s_or, lambda k: FALSE)


@rule("reduce_prod")
def r_reduce_prod(ctx, eqn, a):
    return _reduce(s_mul, lambda k: RV(1) if k == "f" else IV(1))(ctx, eqn, a)


def _cum(f):
    def r(ctx, eqn, a):
        a = obj(a)
        ax = eqn.params["axis"]
        rev = eqn.params.get("reverse", False)
        out = a.copy()
        n = a.shape[ax]
        order = list(range(n - 1, -1, -1)) if rev else list(range(n))
        for pos in range(1, n):
            k, kp = order[pos], order[pos - 1]
            i0 = [slice(None)] * a.ndim
            i1 = [slice(None)] * a.ndim
            i0[ax], i1[ax] = k, kp
            res = ew(f)(ctx, eqn, out[tuple(i1)], a[tuple(i0)])
            out[tuple(i0)] = res.item() if isinstance(res, np.ndarray) and res.ndim == 0 else res
        return out
    return r


RULES["cumsum"] = _cum(s_add)
RULES["cumprod"] = _cum(s_mul)
RULES["cummax"] = _cum(s_max)
RULES["cummin"] = _cum(s_min)


def s_logaddexp(a, b):
    if isinstance(a, LogV) and isinstance(b, LogV):
        return LogV(a.P + b.P)
    return s_log(s_add(s_exp(a), s_exp(b)))


RULES["cumlogsumexp"] = _cum(s_logaddexp)


@rule("argmax", "argmin")
def r_argmax(ctx, eqn, a):
    a = obj(a)
    (ax,) = eqn.params["axes"]
    is_max = "max" in eqn.primitive.name
    a2 = np.moveaxis(a, ax, 0)
    n = a2.shape[0]
    out = np.empty(a2.shape[1:], dtype=object)
    for idx in np.ndindex(*a2.shape[1:]):
        best_i, best_v = IV(0), a2[(0,) + idx]
        for k in range(1, n):
            v = a2[(k,) + idx]
            better = s_gt(v, best_v) if is_max else s_lt(v, best_v)
            best_i = s_ite(better, IV(k), best_i)
            best_v = s_ite(better, v, best_v)
        out[idx] = best_i
    return out


@rule("dot_general")
def r_dot_general(ctx, eqn, a, b):
    a, b = obj(a), obj(b)
    (ca, cb), (ba, bb) = eqn.params["dimension_numbers"]
    ca, cb, ba, bb = map(tuple, (ca, cb, ba, bb))
    fa = [d for d in range(a.ndim) if d not in ca and d not in ba]
    fb = [d for d in range(b.ndim) if d not in cb and d not in bb]
    a2 = np.transpose(a, list(ba) + fa + list(ca))
    b2 = np.transpose(b, list(bb) + fb + list(cb))
    bshape = a2.shape[:len(ba)]
    fashape = a2.shape[len(ba):len(ba) + len(fa)]
    fbshape = b2.shape[len(bb):len(bb) + len(fb)]
    cshape = a2.shape[len(ba) + len(fa):]
    out = np.empty(bshape + fashape + fbshape, dtype=object)
    isint = out_kind(eqn) in "iu"
    for bi in np.ndindex(*bshape):
        for i in np.ndindex(*fashape):
            for j in np.ndindex(*fbshape):
                acc = IV(0) if isint else RV(0)
                for c in np.ndindex(*cshape):
                    x, y = a2[bi + i + c], b2[bi + j + c]
                    if not any_xv(x, y):
                        x, y = unlog(x), unlog(y)
                    if not isint:
                        x, y = s_real(x), s_real(y)
                    acc = s_add(acc, s_mul(x, y))
                out[bi + i + j] = acc
    return out


@rule("sort")
def r_sort(ctx, eqn, *ops):
    dim = eqn.params["dimension"]
    num_keys = eqn.params.get("num_keys", 1)
    ops = [np.moveaxis(obj(o), dim, -1).copy() for o in ops]
    n = ops[0].shape[-1]
    if num_keys != 1:
        raise Unsupported("sort with num_keys != 1")
    # bubble sort network (stable), n is small
    for bidx in np.ndindex(*ops[0].shape[:-1]):
        rows = [list(o[bidx]) for o in ops]
        for i in range(n):
            for j in range(n - 1 - i):
                sw = s_gt(rows[0][j], rows[0][j + 1])
                for r in rows:
                    x, y = r[j], r[j + 1]
                    r[j], r[j + 1] = s_ite(sw, y, x), s_ite(sw, x, y)
        for o, r in zip(ops, rows):
            for k in range(n):
                o[bidx + (k,)] = r[k]
    return [np.moveaxis(o, -1, dim) for o in ops]


@rule("top_k")
def r_top_k(ctx, eqn, a):
    """values and indices of the k largest entries along the last axis, in descending order, ties to the lower index"""
    a = obj(a)
    k = eqn.params["k"]
    n = a.shape[-1]
    vals = np.empty(a.shape[:-1] + (k,), dtype=object)
    idxs = np.empty(a.shape[:-1] + (k,), dtype=object)
    for b in np.ndindex(*a.shape[:-1]):
        row = [a[b + (j,)] for j in range(n)]
        taken = [FALSE] * n
        for r in range(k):
            best_v, best_i, have = None, None, FALSE
            for j in range(n):
                free = s_not(taken[j])
                better = free if z3.is_false(have) else s_and(free, s_or(s_not(have), s_gt(row[j], best_v)))
                best_v = row[j] if best_v is None else s_ite(better, row[j], best_v)
                best_i = IV(j) if best_i is None else s_ite(better, IV(j), best_i)
                have = s_or(have, free)
            vals[b + (r,)] = best_v
            idxs[b + (r,)] = best_i
            taken = [s_or(taken[j], s_eq(best_i, IV(j))) for j in range(n)]
    return [vals, idxs]


# ---- call-like ----------------------------------------------------------------------
def _closed(j):
    """return (jaxpr, consts) for Jaxpr or ClosedJaxpr"""
    if hasattr(j, "jaxpr") and hasattr(j, "consts"):
        return j.jaxpr, j.consts
    return j, ()


@rule("pjit", "jit", "closed_call", "core_call", "remat", "remat2", "checkpoint", "custom_lin")
def r_call(ctx, eqn, *args):
    j = eqn.params.get("jaxpr") or eqn.params.get("call_jaxpr")
    jp, consts = _closed(j)
    return eval_jaxpr(ctx, jp, consts, *args)


@rule("custom_jvp_call")
def r_custom_jvp(ctx, eqn, *args):
    name = ""
    try:
        name = str(eqn.params["jvp_jaxpr_fun"].debug_info.func_name)
    except Exception:
        pass
    jp, consts = _closed(eqn.params["call_jaxpr"])
    return eval_jaxpr(ctx, jp, consts, *args)


@rule("custom_vjp_call", "custom_vjp_call_jaxpr")
def r_custom_vjp(ctx, eqn, *args):
    j = eqn.params.get("call_jaxpr") or eqn.params.get("fun_jaxpr")
    jp, consts = _closed(j)
    return eval_jaxpr(ctx, jp, consts, *args)


@rule("scan")
def r_scan(ctx, eqn, *args):
    p = eqn.params
    if "ft_in" in p:
        consts_ft, carry_ft, xs_ft = p["ft_in"].unpack()
        nc, nk = len(list(consts_ft)), len(list(carry_ft))
    else:
        nc, nk = p["num_consts"], p["num_carry"]
    consts, carry, xs = list(args[:nc]), list(args[nc:nc + nk]), list(args[nc + nk:])
    body, bconsts = _closed(p["jaxpr"])
    L = p["length"]
    order = range(L - 1, -1, -1) if p["reverse"] else range(L)
    per_iter = {}
    saved = ctx.path
    for i in order:
        ctx.path = saved + (i,)
        xi = [obj(x)[i] for x in xs]
        outs = eval_jaxpr(ctx, body, bconsts, *consts, *carry, *xi)
        carry = outs[:nk]
        per_iter[i] = outs[nk:]
    ctx.path = saved
    ys = []
    nys = len(body.outvars) - nk
    for j in range(nys):
        if L == 0:
            ys.append(np.empty((0,) + tuple(body.outvars[nk + j].aval.shape), dtype=object))
        else:
            ys.append(np.stack([obj(per_iter[i][j]) for i in range(L)], axis=0))
    return list(carry) + ys


MAX_WHILE = [64]
WHILE_AS_UF = [True]


def _while_uf(eqn, args, tag=""):
    """a while loop whose trip count depends on data (e.g. a rejection sampler) is abstracted as an uninterpreted
    function of ALL its inputs, identified by the text of its cond/body IR: two occurrences of the same loop on equal
    inputs are equal (sound for proving equalities; cannot prove anything about the loop's result itself)"""
    import hashlib
    p = eqn.params
    import re
    txt = re.sub(r"0x[0-9a-f]+", "0x", str(p["cond_jaxpr"]) + "|" + str(p["body_jaxpr"]))
    ident = hashlib.sha1(txt.encode()).hexdigest()[:10] + tag
    flat = []
    for a in args:
        for e in obj(a).ravel():
            flat.append(unlog(e))
    outs = []
    for oi, v in enumerate(eqn.outvars):
        kind = kind_of(v.aval.dtype)
        srt = {"f": RealS, "i": IntS, "u": IntS, "b": BoolS, "k": Key}[kind]
        out = np.empty(v.aval.shape, dtype=object)
        for j, idx in enumerate(np.ndindex(*v.aval.shape)):
            f = UF(f"While_{ident}_{oi}_{j}", *[t.sort() for t in flat], srt)
            out[idx] = f(*flat)
        outs.append(out)
    return outs


@rule("while")
def r_while(ctx, eqn, *args):
    p = eqn.params
    cn, bn = p["cond_nconsts"], p["body_nconsts"]
    cj, cconsts = _closed(p["cond_jaxpr"])
    bj, bconsts = _closed(p["body_jaxpr"])
    cc, bc, carry = list(args[:cn]), list(args[cn:cn + bn]), list(args[cn + bn:])
    saved = ctx.path
    for it in range(MAX_WHILE[0]):
        (c,) = eval_jaxpr(ctx, cj, cconsts, *cc, *carry)
        c = obj(c).item()
        c = z3.simplify(c)
        if z3.is_false(c):
            ctx.path = saved
            return carry
        if not z3.is_true(c):
            if WHILE_AS_UF[0]:
                ctx.path = saved
                return _while_uf(eqn, list(cc) + list(bc) + list(carry), tag=f"it{it}")
            raise Unsupported("while loop with data-dependent trip count")
        ctx.path = saved + (it,)
        carry = eval_jaxpr(ctx, bj, bconsts, *bc, *carry)
    raise Unsupported("while loop exceeds unrolling bound")


@rule("cond")
def r_cond(ctx, eqn, idx, *ops):
    branches = eqn.params["branches"]
    idx = obj(idx).item()
    if z3.is_bool(idx):
        idx = s_ite(idx, IV(1), IV(0))
    ci = _const_int(idx)
    if ci is not None:
        bi = min(max(ci, 0), len(branches) - 1)
        jp, consts = _closed(branches[bi])
        saved = ctx.path
        ctx.path = saved + (f"br{bi}",)
        try:
            return eval_jaxpr(ctx, jp, consts, *ops)
        finally:
            ctx.path = saved
    saved = ctx.path
    outs = []
    for bi, b in enumerate(branches):
        ctx.path = saved + (f"br{bi}",)
        jp, consts = _closed(b)
        outs.append(eval_jaxpr(ctx, jp, consts, *ops))
    ctx.path = saved
    res = []
    n = len(branches)
    for k in range(len(outs[0])):
        acc = obj(outs[-1][k])
        for bi in range(n - 2, -1, -1):
            cond = (idx <= bi) if bi == 0 else (idx == bi)  # clamped like lax.switch
            acc = ew(lambda a, b, c=cond: s_ite(c, a, b))(ctx, eqn, outs[bi][k], acc)
        res.append(acc)
    return res


@rule("platform_index")
def r_platform_index(ctx, eqn, *a):
    # lax.platform_dependent: choose the branch for 'cpu' (default branch otherwise)
    platforms = eqn.params.get("platforms", ())
    for i, ps in enumerate(platforms):
        if ps is None or "cpu" in ps:
            return obj(np.asarray(i, dtype=np.int32))
    return obj(np.asarray(len(platforms) - 1, dtype=np.int32))


# ---- linear algebra (n <= 3, closed forms) -------------------------------------------
@rule("cholesky")
def r_cholesky(ctx, eqn, a):
    a = obj(a)
    n = a.shape[-1]
    out = np.empty(a.shape, dtype=object)
    for b in np.ndindex(*a.shape[:-2]):
        A = a[b]
        Lm = [[RV(0)] * n for _ in range(n)]
        for i in range(n):
            for j in range(i + 1):
                s = unlog(A[i, j])
                for k in range(j):
                    s = s_sub(s, s_mul(Lm[i][k], Lm[j][k]))
                if i == j:
                    Lm[i][j] = s_sqrt(s)
                else:
                    Lm[i][j] = s_div(s, Lm[j][j])
        for i in range(n):
            for j in range(n):
                out[b + (i, j)] = Lm[i][j]
    return out


@rule("triangular_solve")
def r_triangular_solve(ctx, eqn, a, b):
    a, b = obj(a), obj(b)
    p = eqn.params
    left, lower, trans, conj, unit = p["left_side"], p["lower"], p["transpose_a"], p["conjugate_a"], p["unit_diagonal"]
    if isinstance(trans, (bool, np.bool_)):
        do_t = bool(trans)
    else:
        tr = str(trans).upper()
        do_t = not ("NO" in tr or tr.endswith("N") or tr in ("0", "FALSE"))
    out = np.empty(b.shape, dtype=object)
    n = a.shape[-1]
    for bi in np.ndindex(*a.shape[:-2]):
        A = a[bi]
        if do_t:
            A = A.T
            low = not lower
        else:
            low = lower
        B = b[bi]
        if not left:
            # X A = B  <=>  A^T X^T = B^T
            A = A.T
            low = not low
            B = B.T
        m = B.shape[1]
        X = np.empty(B.shape, dtype=object)
        rng = range(n) if low else range(n - 1, -1, -1)
        for c in range(m):
            for i in rng:
                s = unlog(B[i, c])
                ks = range(i) if low else range(i + 1, n)
                for k in ks:
                    s = s_sub(s, s_mul(unlog(A[i, k]), X[k, c]))
                X[i, c] = s if unit else s_div(s, unlog(A[i, i]))
        if not left:
            X = X.T
        out[bi] = X
    return out


@rule("lu")
def r_lu(ctx, eqn, a):
    """LU with partial pivoting, n <= 2 exactly as LAPACK picks pivots (max |.|, first on ties)."""
    a = obj(a)
    n = a.shape[-1]
    if a.shape[-2] != n or n > 2:
        raise Unsupported("lu for n > 2")
    lu = np.empty(a.shape, dtype=object)
    piv = np.empty(a.shape[:-1], dtype=object)
    perm = np.empty(a.shape[:-1], dtype=object)
    ab = RULES["abs"]
    for b in np.ndindex(*a.shape[:-2]):
        A = a[b]
        if n == 1:
            lu[b + (0, 0)] = A[0, 0]
            piv[b + (0,)] = IV(0)
            perm[b + (0,)] = IV(0)
            continue
        a00, a01, a10, a11 = (unlog(A[0, 0]), unlog(A[0, 1]), unlog(A[1, 0]), unlog(A[1, 1]))
        abs0 = z3.If(a00 >= 0, a00, -a00)
        abs1 = z3.If(a10 >= 0, a10, -a10)
        sw = abs1 > abs0
        p00, p01 = s_ite(sw, a10, a00), s_ite(sw, a11, a01)
        p10, p11 = s_ite(sw, a00, a10), s_ite(sw, a01, a11)
        l10 = s_div(p10, p00)
        lu[b + (0, 0)], lu[b + (0, 1)] = p00, p01
        lu[b + (1, 0)], lu[b + (1, 1)] = l10, s_sub(p11, s_mul(l10, p01))
        piv[b + (0,)], piv[b + (1,)] = s_ite(sw, IV(1), IV(0)), IV(1)
        perm[b + (0,)], perm[b + (1,)] = s_ite(sw, IV(1), IV(0)), s_ite(sw, IV(0), IV(1))
    return [lu, piv, perm]


@rule("lu_pivots_to_permutation")
def r_lu_piv_perm(ctx, eqn, piv):
    piv = obj(piv)
    n = eqn.params["permutation_size"]
    out = np.empty(piv.shape[:-1] + (n,), dtype=object)
    for b in np.ndindex(*piv.shape[:-1]):
        perm = [IV(i) for i in range(n)]
        for i in range(piv.shape[-1]):
            j = piv[b + (i,)]
            # swap perm[i], perm[j]
            pj = obj(select_index(np.array(perm, dtype=object), 0, j)).item()
            pi = perm[i]
            new = []
            for k in range(n):
                v = perm[k]
                v = s_ite(s_eq(j, IV(k)), pi, v)
                new.append(v)
            new[i] = s_ite(s_eq(j, IV(i)), pi, pj)
            perm = new
        for k in range(n):
            out[b + (k,)] = perm[k]
    return out


@rule("custom_linear_solve")
def r_custom_linear_solve(ctx, eqn, *args):
    p = eqn.params
    cs = p["const_lengths"]
    jx = p["jaxprs"]
    n_mat, n_vec, n_solve, n_tsolve = cs.matvec, cs.vecmat, cs.solve, cs.transpose_solve
    off = 0
    matvec_c = args[off:off + n_mat]; off += n_mat
    vecmat_c = args[off:off + n_vec]; off += n_vec
    solve_c = args[off:off + n_solve]; off += n_solve
    tsolve_c = args[off:off + n_tsolve]; off += n_tsolve
    b = args[off:]
    jp, consts = _closed(jx.solve)
    return eval_jaxpr(ctx, jp, consts, *solve_c, *b)


# ---- random -----------------------------------------------------------------------------
@rule("random_split")
def r_random_split(ctx, eqn, k):
    k = obj(k)
    shape = tuple(eqn.params["shape"])
    out = np.empty(k.shape + shape, dtype=object)
    for b in np.ndindex(*k.shape):
        ctx.consumed.append(("split", k[b], ctx.path, len(list(np.ndindex(*shape)))))
        for j, idx in enumerate(np.ndindex(*shape)):
            out[b + idx] = Key.Split(k[b], IV(j))
    return out


@rule("random_fold_in")
def r_random_fold_in(ctx, eqn, k, d):
    def f(kk, dd):
        ctx.consumed.append(("fold", kk, ctx.path, dd))
        # with JAX's (partitionable) threefry fold_in(k, i) IS split(k)[i] (checked numerically at start-up by
        # vcheck selftest): model it as the same derived key so that mixing split and fold_in on one key collides
        return Key.Split(kk, dd)
    return ew(f)(ctx, eqn, k, d)


@rule("random_bits")
def r_random_bits(ctx, eqn, k):
    k = obj(k)
    shape = tuple(eqn.params["shape"])
    out = np.empty(k.shape + shape, dtype=object)
    for b in np.ndindex(*k.shape):
        ctx.consumed.append(("bits", k[b], ctx.path, shape))
        for j, idx in enumerate(np.ndindex(*shape)):
            out[b + idx] = Bits(k[b], IV(j))
    return out


RULES["random_seed"] = ew(lambda s: Key.Seeded(s))
RULES["random_wrap"] = lambda ctx, eqn, a: _wrap_key(a)
RULES["random_unwrap"] = lambda ctx, eqn, a: _unwrap_key(a)
RULES["random_clone"] = lambda ctx, eqn, a: a

KeyData = UF("KeyData", Key, IntS, IntS)
KeyOfData = UF("KeyOfData", IntS, IntS, Key)


def _unwrap_key(a):
    a = obj(a)
    out = np.empty(a.shape + (2,), dtype=object)
    for b in np.ndindex(*a.shape):
        out[b + (0,)] = KeyData(a[b], IV(0))
        out[b + (1,)] = KeyData(a[b], IV(1))
    return out


def _wrap_key(a):
    a = obj(a)
    out = np.empty(a.shape[:-1], dtype=object)
    for b in np.ndindex(*out.shape):
        x, y = a[b + (0,)], a[b + (1,)]
        if is_app_of(x, "KeyData", 2) and is_app_of(y, "KeyData", 2) and x.arg(0).eq(y.arg(0)):
            out[b] = x.arg(0)
        else:
            out[b] = KeyOfData(x, y)
    return out


def _int_uf(name, n):
    f = UF(name, *([IntS] * (n + 1)))
    return ew(lambda *xs: f(*xs))


RULES["shift_right_logical"] = _int_uf("Shr", 2)
RULES["shift_left"] = _int_uf("Shl", 2)
RULES["shift_right_arithmetic"] = _int_uf("Sar", 2)
RULES["population_count"] = _int_uf("Popcnt", 1)
RULES["clz"] = _int_uf("Clz", 1)


@rule("bitcast_convert_type")
def r_bitcast(ctx, eqn, a):
    new = kind_of(eqn.params["new_dtype"])
    old = in_kind(eqn)
    name = f"Bitcast_{old}_{np.dtype(eqn.params['new_dtype']).name}"
    srt = {"f": RealS, "i": IntS, "u": IntS, "b": BoolS}
    f = UF(name, srt[old], srt[new])
    return ew(lambda x: f(unlog(x)))(ctx, eqn, a)


@rule("empty", "empty2")
def r_empty(ctx, eqn, *a):
    v = eqn.outvars[0]
    return fresh_like(v.aval.shape, v.aval.dtype, f"uninit{next(ctx.counter)}")


@rule("random_gamma")
def r_random_gamma(ctx, eqn, k, a):
    ctx.consumed.append(("bits", obj(k).ravel()[0], ctx.path, ()))
    f = UF("RandomGamma" + ("Log" if eqn.params.get("log_space") else ""), Key, RealS, RealS)
    return ew(lambda kk, aa: f(kk, s_real(unlog(aa))))(ctx, eqn, k, a)


@rule("threefry2x32")
def r_threefry(ctx, eqn, k0, k1, x0, x1):
    f0 = UF("Threefry0", IntS, IntS, IntS, IntS, IntS)
    f1 = UF("Threefry1", IntS, IntS, IntS, IntS, IntS)
    return [ew(lambda a, b, c, d: f0(a, b, c, d))(ctx, eqn, k0, k1, x0, x1),
            ew(lambda a, b, c, d: f1(a, b, c, d))(ctx, eqn, k0, k1, x0, x1)]


# --------------------------------------------------------------------------- pjax primitives
def _pjax():
    from genjax import pjax
    return pjax


def r_sample(ctx, eqn, prim, inner, *args):
    sid = ctx.site_id()
    if ctx.scripted is not None:
        outs = [obj(ctx.scripted(sid, k, v.aval, inner)) for k, v in enumerate(eqn.outvars)]
    else:
        tag = "_".join(str(p) for p in sid)
        outs = [fresh_like(v.aval.shape, v.aval.dtype, f"{ctx.prefix}{tag}" + (f"o{k}" if k else ""))
                for k, v in enumerate(eqn.outvars)]
        if XVMODE[0]:
            # a draw is a finite number
            outs = [ew(lambda t: XV.fin(t))(None, None, o) if kind_of(v.aval.dtype) == "f" else o for o, v in zip(outs, eqn.outvars)]
    ctx.sites.append(Site(eqn.params.get("name") or inner.get("name"), prim.name, list(args), outs,
                          inner.get("sample_shape"), inner, eqn, ctx.path, sid))
    return outs


def r_log_density(ctx, eqn, prim, inner, *args):
    impl = inner["impl"]
    params = dict(inner)
    params.update(eqn.params)
    params.pop("impl", None)
    avals = [jax.ShapeDtypeStruct(v.aval.shape, v.aval.dtype) for v in eqn.invars]
    closed = jax.make_jaxpr(lambda *a: impl(*a, **params))(*avals)
    return eval_jaxpr(ctx, closed.jaxpr, closed.consts, *args)


def r_generic_initial_style(ctx, eqn, prim, inner, *args):
    """Other InitialStylePrimitives (state.tag, namespace push/pop, ...): inline impl."""
    impl = inner.get("impl")
    if impl is None:
        raise Unsupported(f"primitive {prim.name} without impl")
    params = dict(inner)
    params.update(eqn.params)
    params.pop("impl", None)
    avals = [jax.ShapeDtypeStruct(v.aval.shape, v.aval.dtype) for v in eqn.invars]
    closed = jax.make_jaxpr(lambda *a: impl(*a, **params))(*avals)
    return eval_jaxpr(ctx, closed.jaxpr, closed.consts, *args)


HOOKS = {}   # primitive-name substring -> handler(ctx, eqn, prim, inner, *args)


def eval_jaxpr(ctx, jaxpr, consts, *args):
    pj = _pjax()
    env = {}

    def read(v):
        if isinstance(v, Literal):
            return lift_array(np.asarray(v.val), v.aval.dtype)
        return env[v]

    for v, c in zip(jaxpr.constvars, consts):
        if isinstance(c, np.ndarray) and c.dtype == object:
            env[v] = c
        else:
            try:
                env[v] = lift_array(np.asarray(c), v.aval.dtype)
            except Exception as e:
                if kind_of(v.aval.dtype) == "k":
                    data = np.asarray(jax.random.key_data(c))
                    out = np.empty(data.shape[:-1], dtype=object)
                    for b in np.ndindex(*out.shape):
                        out[b] = Key.Seeded(IV(int(data[b + (0,)]) * (2 ** 32) + int(data[b + (1,)])))
                    env[v] = out
                else:
                    raise
    if len(jaxpr.invars) != len(args):
        raise Unsupported(f"arity mismatch {len(jaxpr.invars)} vs {len(args)}")
    for v, a in zip(jaxpr.invars, args):
        env[v] = obj(a)
    old_mode = LOGMODE[0]
    LOGMODE[0] = ctx.logmode
    try:
        for eqn in jaxpr.eqns:
            invals = [read(v) for v in eqn.invars]
            prim, inner = pj.PPPrimitive.unwrap(eqn.primitive)
            ctx.nprims += 1
            ctx.prims_seen.add(_plain_name(prim.name))
            handled = False
            for key, h in HOOKS.items():
                if key in prim.name:
                    outs = h(ctx, eqn, prim, inner, *invals)
                    handled = True
                    break
            if handled:
                pass
            elif prim in (pj.sample_p, pj.adev_sample_p):
                outs = r_sample(ctx, eqn, prim, inner, *invals)
            elif prim is pj.log_density_p:
                outs = r_log_density(ctx, eqn, prim, inner, *invals)
            elif isinstance(prim, pj.InitialStylePrimitive):
                outs = r_generic_initial_style(ctx, eqn, prim, inner, *invals)
            else:
                name = eqn.primitive.name
                if name not in RULES:
                    raise Unsupported(f"primitive {name}")
                outs = RULES[name](ctx, eqn, *invals)
                if not eqn.primitive.multiple_results:
                    outs = [outs]
            for v, o in zip(eqn.outvars, outs):
                o = obj(o)
                if tuple(o.shape) != tuple(v.aval.shape):
                    try:
                        o = np.broadcast_to(o, v.aval.shape).copy() if o.size in (1, int(np.prod(v.aval.shape))) and o.ndim <= len(v.aval.shape) else o.reshape(v.aval.shape)
                    except Exception:
                        raise Unsupported(f"shape mismatch in {eqn.primitive.name}: {o.shape} vs {v.aval.shape}")
                env[v] = o
    finally:
        LOGMODE[0] = old_mode
    return [read(v) for v in jaxpr.outvars]


def _plain_name(n):
    import re
    return re.sub(r"\x1b\[[0-9;]*m", "", n)


# --------------------------------------------------------------------------- tracing front end
class Traced:
    """Result of sym_trace: closed jaxpr + symbolic inputs/outputs as pytrees of object arrays."""

    def __init__(self, ctx, ins, outs, closed, flat_in, flat_out, out_shape):
        self.ctx, self.ins, self.outs, self.closed = ctx, ins, outs, closed
        self.flat_in, self.flat_out, self.out_shape = flat_in, flat_out, out_shape

    @property
    def sites(self):
        return self.ctx.sites

    @property
    def n_eqns(self):
        return count_eqns(self.closed.jaxpr)


def count_eqns(jaxpr):
    n = 0
    for e in jaxpr.eqns:
        n += 1
        for v in e.params.values():
            for j in (v if isinstance(v, (tuple, list)) else (v,)):
                jp = getattr(j, "jaxpr", j)
                if hasattr(jp, "eqns"):
                    n += count_eqns(jp)
    return n


def make_jaxpr(fn, *example_args, **example_kwargs):
    return jax.make_jaxpr(fn, return_shape=True)(*example_args, **example_kwargs)


def sym_trace(fn, *example_args, prefix="a", logmode=False, sym_in=None, ctx=None, sprefix="s", scripted=None,
              names=None, pretraced=None):
    """Trace fn at the avals of example_args and evaluate the Jaxpr symbolically.

    sym_in: optional list of object arrays to use for the flat inputs (else fresh variables).
    pretraced: (closed_jaxpr, out_shape) if the caller already ran jax.make_jaxpr."""
    closed, out_shape = pretraced if pretraced is not None else jax.make_jaxpr(fn, return_shape=True)(*example_args)
    ctx = ctx or Ctx(logmode=logmode, prefix=sprefix, scripted=scripted)
    flat_in, in_tree = jax.tree_util.tree_flatten(example_args)
    if sym_in is None:
        sym_in = []
        for i, v in enumerate(closed.jaxpr.invars):
            nm = f"{prefix}{i}" if names is None else names[i]
            sym_in.append(fresh_like(v.aval.shape, v.aval.dtype, nm))
    else:
        sym_in = [obj(s) for s in sym_in]
    del NAN_CONDS[:]
    old_xv = XVMODE[0]
    XVMODE[0] = any(isinstance(e, XV) for a in sym_in for e in obj(a).ravel())
    try:
        outs = eval_jaxpr(ctx, closed.jaxpr, closed.consts, *sym_in)
    finally:
        XVMODE[0] = old_xv
    ctx.nan_conds = list(NAN_CONDS)
    out_tree = jax.tree_util.tree_structure(out_shape)
    return Traced(ctx, jax.tree_util.tree_unflatten(in_tree, sym_in),
                  jax.tree_util.tree_unflatten(out_tree, outs), closed, sym_in, outs, out_shape)


def eval_closed(closed, sym_in, logmode=False, ctx=None, scripted=None, sprefix="s"):
    ctx = ctx or Ctx(logmode=logmode, scripted=scripted, prefix=sprefix)
    return ctx, eval_jaxpr(ctx, closed.jaxpr, closed.consts, *[obj(s) for s in sym_in])


def sym_like(tree, prefix):
    """pytree of arrays/ShapeDtypeStructs -> pytree of fresh object arrays"""
    leaves, td = jax.tree_util.tree_flatten(tree)
    out = []
    for i, l in enumerate(leaves):
        shape = tuple(np.shape(l)) if not hasattr(l, "shape") else tuple(l.shape)
        dtype = l.dtype if hasattr(l, "dtype") else np.asarray(l).dtype
        out.append(fresh_like(shape, dtype, f"{prefix}{i}"))
    return jax.tree_util.tree_unflatten(td, out)


def terms(x):
    """flatten an object array / pytree thereof to a list of plain z3 terms"""
    res = []
    for l in jax.tree_util.tree_leaves(x, is_leaf=lambda t: isinstance(t, np.ndarray)):
        for e in obj(l).ravel():
            if isinstance(e, XV):
                res += [e.nan, e.pinf, e.ninf, e.v]
            else:
                res.append(unlog(e))
    return res


def free_vars(ts):
    seen, out = set(), {}
    stack = list(ts)
    while stack:
        t = stack.pop()
        if t.get_id() in seen:
            continue
        seen.add(t.get_id())
        if z3.is_const(t) and t.decl().kind() == z3.Z3_OP_UNINTERPRETED:
            out[t.decl().name()] = t
        else:
            stack.extend(t.children())
    return out


def sym_apply(fn, example_args, sym_args, **kw):
    """trace fn at example_args (a tuple) and evaluate it on the object-array pytree sym_args (same structure)"""
    flat, _ = jax.tree_util.tree_flatten(sym_args, is_leaf=lambda t: isinstance(t, np.ndarray))
    return sym_trace(fn, *example_args, sym_in=flat, **kw)
