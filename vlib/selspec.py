"""Specification-level selections: the documented meaning of sel(...) on address paths
(independent of genjax's match chain), and the constructor of the real Selection."""
from __future__ import annotations


class SelSpec:
    def __init__(self, kind, *a):
        self.kind, self.a = kind, a

    def selected(self, path):
        k, a = self.kind, self.a
        if k == "none":
            return False
        if k == "all":
            return True
        if k == "str":
            return len(path) >= 1 and path[0] == a[0]
        if k == "tuple":
            t = a[0]
            if len(t) == 0:
                return True      # sel(()) selects everything
            return tuple(path[:len(t)]) == tuple(t)
        if k == "dict":
            d = a[0]
            return len(path) >= 1 and path[0] in d and d[path[0]].selected(path[1:])
        if k == "or":
            return a[0].selected(path) or a[1].selected(path)
        if k == "and":
            return a[0].selected(path) and a[1].selected(path)
        if k == "not":
            return not a[0].selected(path)
        raise ValueError(k)

    def build(self):
        from genjax import sel
        k, a = self.kind, self.a
        if k == "none":
            return sel()
        if k == "all":
            return sel(())
        if k == "str":
            return sel(a[0])
        if k == "tuple":
            return sel(tuple(a[0]))
        if k == "dict":
            return sel({key: v.build() for key, v in a[0].items()})
        if k == "or":
            return a[0].build() | a[1].build()
        if k == "and":
            return a[0].build() ^ a[1].build()
        if k == "not":
            return ~a[0].build()

    def __repr__(self):
        k, a = self.kind, self.a
        if k == "none":
            return "sel()"
        if k == "all":
            return "sel(())"
        if k == "str":
            return f"sel({a[0]!r})"
        if k == "tuple":
            return f"sel({tuple(a[0])!r})"
        if k == "dict":
            return "sel({" + ", ".join(f"{key!r}: {v!r}" for key, v in a[0].items()) + "})"
        if k == "or":
            return f"({a[0]!r} | {a[1]!r})"
        if k == "and":
            return f"({a[0]!r} ^ {a[1]!r})"
        if k == "not":
            return f"~{a[0]!r}"


NONE, ALL = SelSpec("none"), SelSpec("all")


def Str(s): return SelSpec("str", s)
def Tup(*t): return SelSpec("tuple", tuple(t))
def Dict(d): return SelSpec("dict", d)
def Or(a, b): return SelSpec("or", a, b)
def And(a, b): return SelSpec("and", a, b)
def Not(a): return SelSpec("not", a)


def leaf_sel(path, form="tuple"):
    if len(path) == 1:
        return Str(path[0])
    if form == "tuple":
        return Tup(*path)
    s = Str(path[-1])
    for k in reversed(path[:-1]):
        s = Dict({k: s})
    return s


def enumerate_selections(paths, thorough=False):
    """selection specs for a program with the given leaf address paths"""
    out = [NONE, ALL]
    seen = set()
    for p in paths:
        out.append(leaf_sel(p, "tuple"))
        if len(p) > 1:
            out.append(leaf_sel(p, "dict"))
            if p[0] not in seen:
                seen.add(p[0])
                out.append(Str(p[0]))       # the whole sub-call
    if paths:
        out.append(Not(leaf_sel(paths[0])))
    if len(paths) >= 2:
        out.append(Or(leaf_sel(paths[0]), leaf_sel(paths[-1], "dict")))
        out.append(And(Not(leaf_sel(paths[0])), ALL))
    if thorough and len(paths) >= 3:
        out.append(Or(leaf_sel(paths[1]), Not(Or(leaf_sel(paths[0]), leaf_sel(paths[2])))))
        out.append(And(Or(leaf_sel(paths[0]), leaf_sel(paths[1])), Not(leaf_sel(paths[1]))))
    # dedupe by repr
    res, names = [], set()
    for s in out:
        if repr(s) not in names:
            names.add(repr(s))
            res.append(s)
    return res
