"""Solver front end: every query has a timeout; unsat = holds within the bound, sat = candidate
counterexample (must be replayed before it is reported), unknown = inconclusive."""
from __future__ import annotations

import os
import subprocess
import tempfile
import time

import numpy as np
import z3

from . import symjax as sj

QUICK_TIMEOUT_MS = 60_000
THOROUGH_TIMEOUT_MS = 600_000


def tier():
    return os.environ.get("VERIF_TIER", "quick")


def default_timeout_ms():
    return THOROUGH_TIMEOUT_MS if tier() == "thorough" else QUICK_TIMEOUT_MS


class Stats:
    def __init__(self):
        self.queries = 0
        self.unsat = 0
        self.sat = 0
        self.unknown = 0
        self.time = 0.0
        self.second_opinions = 0
        self.second_disagree = 0
        self.normal_form = 0        # identities decided by the exact ring normal form (side conditions still go to z3)


STATS = Stats()


def eq_goal(a, b, tol=None):
    """z3 Bool: a == b for two scalars (z3 terms or LogV)."""
    if isinstance(a, sj.XV) or isinstance(b, sj.XV):
        return sj.xv_same(a, b)
    if isinstance(a, sj.LogV) and isinstance(b, sj.LogV):
        a, b = a.P, b.P
    else:
        a, b = sj.unlog(a), sj.unlog(b)
    if a.sort() != b.sort():
        if z3.is_bool(a) or z3.is_bool(b):
            a, b = sj.s_real(a), sj.s_real(b)
        else:
            a, b = sj.s_real(a), sj.s_real(b)
    if tol is not None and a.sort() == sj.RealS:
        d = a - b
        return z3.And(d < tol, d > -tol)
    return a == b


def eq_arrays(a, b, tol=None):
    """conjunction of elementwise equalities between two object arrays (broadcast)"""
    a, b = sj.obj(a), sj.obj(b)
    if a.shape != b.shape:
        try:
            a, b = np.broadcast_arrays(a, b)
        except ValueError:
            return z3.BoolVal(False)
    gs = []
    for idx in np.ndindex(a.shape):
        x, y = a[idx], b[idx]
        if not isinstance(x, (sj.LogV, sj.XV)) and not isinstance(y, (sj.LogV, sj.XV)) and x.eq(y):
            continue
        gs.append(eq_goal(x, y, tol))
    return z3.And(*gs) if gs else z3.BoolVal(True)


def eq_trees(a, b, tol=None):
    import jax
    isleaf = lambda t: isinstance(t, np.ndarray)
    la, ta = jax.tree_util.tree_flatten(a, is_leaf=isleaf)
    lb, tb = jax.tree_util.tree_flatten(b, is_leaf=isleaf)
    if ta != tb:
        return z3.BoolVal(False)
    gs = []
    for x, y in zip(la, lb):
        if isinstance(x, str) or isinstance(y, str):
            if x != y:
                return z3.BoolVal(False)
            continue
        gs.append(eq_arrays(x, y, tol))
    return z3.And(*gs) if gs else z3.BoolVal(True)


class Result:
    def __init__(self, verdict, t, model=None, solver=None, smt2=None, reason=""):
        self.verdict, self.time, self.model, self.solver, self.smt2, self.reason = verdict, t, model, solver, smt2, reason

    def __repr__(self):
        return f"<{self.verdict} {self.time:.3f}s>"


def prove(goal, assumptions=(), timeout_ms=None, want_smt2=False, tactic=None):
    """Is `goal` valid under `assumptions`?  unsat of (assumptions and not goal) = proved."""
    timeout_ms = timeout_ms or default_timeout_ms()
    t0 = time.time()
    g = z3.simplify(goal) if z3.is_expr(goal) else z3.BoolVal(bool(goal))
    if z3.is_true(g):
        STATS.queries += 1
        STATS.unsat += 1
        return Result("unsat", 0.0, reason="syntactic")
    assumptions = list(assumptions) + sqrt_axioms([g] + list(assumptions))
    # portfolio: default solver first (short budget), then the nlsat pipeline (decides many nonlinear identities the
    # default strategy does not), then the default solver with the full budget
    attempts = [("default", min(int(timeout_ms), 8000)), ("nlsat", int(timeout_ms) // 2), ("default", int(timeout_ms))]
    r, s = z3.unknown, None
    for which, budget in attempts:
        if which == "default":
            s = z3.Solver()
        else:
            try:
                s = z3.Then("simplify", "solve-eqs", "purify-arith", "qfnra-nlsat").solver()
            except Exception:
                continue
        s.set("timeout", budget)
        for a in assumptions:
            s.add(a)
        s.add(z3.Not(g))
        try:
            r = s.check()
        except z3.Z3Exception:
            r = z3.unknown
        if str(r) in ("sat", "unsat"):
            break
    dt = time.time() - t0
    STATS.queries += 1
    STATS.time += dt
    v = str(r)
    if v == "unsat":
        STATS.unsat += 1
    elif v == "sat":
        STATS.sat += 1
    else:
        STATS.unknown += 1
    return Result(v, dt, s.model() if v == "sat" else None, s, s.to_smt2() if want_smt2 else None,
                  reason=s.reason_unknown() if v == "unknown" else "")


def sqrt_axioms(ts):
    """Sqrt is an uninterpreted function in the encoding; for every application Sqrt(a) in the query add
    a >= 0 => (Sqrt(a) >= 0 and Sqrt(a)^2 == a)   (for a < 0 the real code returns NaN: outside every claim)"""
    seen, apps = set(), []
    stack = [t for t in ts if z3.is_expr(t)]
    while stack:
        e = stack.pop()
        if e.get_id() in seen:
            continue
        seen.add(e.get_id())
        if sj.is_app_of(e, "Sqrt", 1):
            apps.append(e)
        stack.extend(e.children())
    return [z3.Implies(a.arg(0) >= 0, z3.And(a >= 0, a * a == a.arg(0))) for a in apps]


def satisfiable(constraints, timeout_ms=None):
    """reachability twin: the assumptions must be satisfiable"""
    s = z3.Solver()
    s.set("timeout", int(timeout_ms or default_timeout_ms()))
    for a in constraints:
        s.add(a)
    t0 = time.time()
    r = s.check()
    STATS.queries += 1
    STATS.time += time.time() - t0
    return Result(str(r), time.time() - t0, s.model() if str(r) == "sat" else None, s)


def second_opinion(solver: z3.Solver, timeout_s=60):
    """Give the same SMT-LIB text to the independent /usr/bin/z3 4.8.12 binary."""
    txt = solver.to_smt2()
    with tempfile.NamedTemporaryFile("w", suffix=".smt2", delete=False, dir=os.environ.get("TMPDIR", "/tmp")) as f:
        f.write(txt)
        path = f.name
    try:
        out = subprocess.run(["/usr/bin/z3", f"-T:{timeout_s}", path], capture_output=True, text=True,
                             timeout=timeout_s + 10).stdout
    except Exception as e:
        out = f"error {e}"
    finally:
        os.unlink(path)
    STATS.second_opinions += 1
    if "(error" in out:
        return "error"
    first = out.strip().splitlines()[0] if out.strip() else "unknown"
    return first if first in ("sat", "unsat") else "unknown"


# --------------------------------------------------------------------------- rational-function identities
def ratnorm(t):
    """z3 Real term -> (numerator, denominator) built by structural recursion over + - * / and numerals; anything
    else (variables, ite, uninterpreted applications) is an atom.  t == numerator / denominator wherever every
    denominator met on the way is non-zero (the caller discharges `denominator != 0` as a separate obligation)."""
    one = z3.RealVal(1)
    if sj.is_num(t):
        return t, one
    if z3.is_add(t):
        parts = [ratnorm(c) for c in t.children()]
        den = one
        for _, d in parts:
            if not (sj.is_num(d) and sj.num_val(d) == 1) and not any(d.eq(x) for x in _factors(den)):
                den = d if (sj.is_num(den) and sj.num_val(den) == 1) else den * d
        num = None
        for n, d in parts:
            # multiply n by den / d
            rest = [f for f in _factors(den)]
            for f in _factors(d):
                for i, r in enumerate(rest):
                    if r.eq(f):
                        rest.pop(i)
                        break
            term = n
            for r in rest:
                if not (sj.is_num(r) and sj.num_val(r) == 1):
                    term = term * r
            num = term if num is None else num + term
        return num, den
    if z3.is_sub(t):
        cs = t.children()
        acc = cs[0]
        for c in cs[1:]:
            acc = acc + (-1) * c
        return ratnorm(acc)
    if z3.is_mul(t):
        num, den = one, one
        for c in t.children():
            n, d = ratnorm(c)
            num = n if (sj.is_num(num) and sj.num_val(num) == 1) else num * n
            if not (sj.is_num(d) and sj.num_val(d) == 1):
                den = d if (sj.is_num(den) and sj.num_val(den) == 1) else den * d
        return num, den
    if z3.is_div(t):
        n1, d1 = ratnorm(t.arg(0))
        n2, d2 = ratnorm(t.arg(1))
        num = n1 if (sj.is_num(d2) and sj.num_val(d2) == 1) else n1 * d2
        den = n2 if (sj.is_num(d1) and sj.num_val(d1) == 1) else d1 * n2
        return num, den
    if z3.is_app_of(t, z3.Z3_OP_UMINUS):
        n, d = ratnorm(t.arg(0))
        return -n, d
    if z3.is_app_of(t, z3.Z3_OP_TO_REAL) and sj.is_num(t.arg(0)):
        return z3.RealVal(t.arg(0).as_long()), one
    return t, one


def _factors(t):
    if z3.is_mul(t):
        out = []
        for c in t.children():
            out += _factors(c)
        return out
    return [t]


def _pmul(a, b):
    out = {}
    for ma, ca in a.items():
        for mb, cb in b.items():
            d = dict(ma)
            for k, e in mb:
                d[k] = d.get(k, 0) + e
            m = tuple(sorted(d.items()))
            c = out.get(m, 0) + ca * cb
            if c == 0:
                out.pop(m, None)
            else:
                out[m] = c
    return out


def _padd(a, b, sign=1):
    out = dict(a)
    for m, c in b.items():
        v = out.get(m, 0) + sign * c
        if v == 0:
            out.pop(m, None)
        else:
            out[m] = v
    return out


def to_poly(t, atoms, memo=None):
    """z3 Real term -> {monomial: Fraction}; monomial = sorted tuple of (atom id, power).  Ring normal form with
    exact rational coefficients; non-arithmetic sub-terms (variables, ite, uninterpreted applications) are atoms."""
    from fractions import Fraction
    memo = {} if memo is None else memo
    k = t.get_id()
    if k in memo:
        return memo[k]
    if sj.is_num(t):
        v = sj.num_val(t)
        r = {(): v} if v != 0 else {}
    elif z3.is_add(t):
        r = {}
        for c in t.children():
            r = _padd(r, to_poly(c, atoms, memo))
    elif z3.is_sub(t):
        cs = t.children()
        r = to_poly(cs[0], atoms, memo)
        for c in cs[1:]:
            r = _padd(r, to_poly(c, atoms, memo), -1)
    elif z3.is_mul(t):
        r = {(): Fraction(1)}
        for c in t.children():
            r = _pmul(r, to_poly(c, atoms, memo))
    elif z3.is_app_of(t, z3.Z3_OP_UMINUS):
        r = {m: -c for m, c in to_poly(t.arg(0), atoms, memo).items()}
    elif z3.is_app_of(t, z3.Z3_OP_POWER) and sj.is_num(t.arg(1)) and sj.num_val(t.arg(1)).denominator == 1 and 0 <= sj.num_val(t.arg(1)) <= 12:
        base = to_poly(t.arg(0), atoms, memo)
        r = {(): Fraction(1)}
        for _ in range(int(sj.num_val(t.arg(1)))):
            r = _pmul(r, base)
    elif z3.is_app_of(t, z3.Z3_OP_TO_REAL) and sj.is_num(t.arg(0)):
        v = Fraction(t.arg(0).as_long())
        r = {(): v} if v != 0 else {}
    else:
        atoms[k] = t
        r = {((k, 1),): Fraction(1)}
    memo[k] = r
    return r


def poly_term(p, atoms):
    """canonical z3 term of a polynomial in ring normal form (monomials in a fixed order)"""
    if not p:
        return z3.RealVal(0)
    terms = []
    for m in sorted(p):
        c = p[m]
        t = sj.RV(c)
        for k, e in m:
            for _ in range(e):
                t = t * atoms[k]
        terms.append(t)
    return z3.Sum(terms) if len(terms) > 1 else terms[0]


def poly_is_zero(t):
    """ring normal form of t (exact rational coefficients); returns (is the zero polynomial, canonical residual term)"""
    atoms = {}
    p = to_poly(z3.simplify(t), atoms)
    return (not p), poly_term(p, atoms)


# --------------------------------------------------------------------------- rational functions in normal form
ONE = {(): 1}


def _pscale(a, c):
    return {m: v * c for m, v in a.items()} if c != 0 else {}


def _ppow(a, n):
    r = dict(ONE)
    for _ in range(n):
        r = _pmul(r, a)
    return r


class RatCtx:
    """atoms (non-arithmetic sub-terms), denominator factors and the divisors / square-root arguments met while
    normalising.  A rational function is kept as (P, F): numerator polynomial P and a FACTORED denominator
    F = {factor key: power} (each divisor's numerator polynomial is one factor), so that sums over a common
    denominator do not multiply it up."""

    def __init__(self):
        self.atoms = {}
        self.memo = {}
        self.divisors = []
        self.sqrt_args = []
        self.factors = {}

    def fkey(self, poly):
        k = frozenset(poly.items())
        self.factors.setdefault(k, poly)
        return k

    def expand(self, F):
        out = dict(ONE)
        for k, e in F.items():
            out = _pmul(out, _ppow(self.factors[k], e))
        return out

    def scale(self, P, Ffrom, Fto):
        """P * prod factor^(Fto - Ffrom)   (Fto >= Ffrom factor-wise)"""
        for k, e in Fto.items():
            d = e - Ffrom.get(k, 0)
            if d:
                P = _pmul(P, _ppow(self.factors[k], d))
        return P


def _flcm(F1, F2):
    out = dict(F1)
    for k, e in F2.items():
        if e > out.get(k, 0):
            out[k] = e
    return out


def _is_const_poly(P):
    return len(P) == 1 and () in P


def rat_of(t, rc):
    """z3 Real term -> (P, F) with t == P / prod(F) wherever every divisor met is non-zero (recorded in rc.divisors
    for the side condition); ring normal form with exact rational coefficients."""
    from fractions import Fraction
    k = t.get_id()
    if k in rc.memo:
        return rc.memo[k]
    if sj.is_num(t):
        v = sj.num_val(t)
        r = ({(): v} if v != 0 else {}, {})
    elif z3.is_add(t) or z3.is_sub(t):
        cs = t.children()
        P, F = rat_of(cs[0], rc)
        sign = -1 if z3.is_sub(t) else 1
        for c in cs[1:]:
            P2, F2 = rat_of(c, rc)
            if F2 == F:
                P = _padd(P, P2, sign)
            else:
                L = _flcm(F, F2)
                P = _padd(rc.scale(P, F, L), rc.scale(P2, F2, L), sign)
                F = L
        r = (P, F)
    elif z3.is_mul(t):
        P, F = dict(ONE), {}
        for c in t.children():
            P2, F2 = rat_of(c, rc)
            P = _pmul(P, P2)
            if F2:
                F = dict(F)
                for kk, e in F2.items():
                    F[kk] = F.get(kk, 0) + e
        r = (P, F)
    elif z3.is_div(t):
        P1, F1 = rat_of(t.arg(0), rc)
        P2, F2 = rat_of(t.arg(1), rc)
        if not sj.is_num(t.arg(1)):
            rc.divisors.append(t.arg(1))
        # (P1 / F1) / (P2 / F2) = P1 F2 / (F1 P2); cancel factors common to F2 and F1
        F = dict(F1)
        up = {}
        for kk, e in F2.items():
            c = min(e, F.get(kk, 0))
            if c:
                F[kk] -= c
                if not F[kk]:
                    del F[kk]
            if e - c:
                up[kk] = e - c
        P = _pmul(P1, rc.expand(up)) if up else P1
        if _is_const_poly(P2):
            P = _pscale(P, 1 / Fraction(P2[()]))
        elif not P2:
            raise ZeroDivisionError("division by the zero polynomial")
        else:
            fk = rc.fkey(P2)
            F[fk] = F.get(fk, 0) + 1
        r = (P, F)
    elif z3.is_app_of(t, z3.Z3_OP_UMINUS):
        P, F = rat_of(t.arg(0), rc)
        r = (_pscale(P, -1), F)
    elif z3.is_app_of(t, z3.Z3_OP_POWER) and sj.is_num(t.arg(1)) and sj.num_val(t.arg(1)).denominator == 1 and 0 <= sj.num_val(t.arg(1)) <= 12:
        P, F = rat_of(t.arg(0), rc)
        n = int(sj.num_val(t.arg(1)))
        r = (_ppow(P, n), {kk: e * n for kk, e in F.items()})
    elif z3.is_app_of(t, z3.Z3_OP_TO_REAL) and sj.is_num(t.arg(0)):
        v = Fraction(t.arg(0).as_long())
        r = ({(): v} if v != 0 else {}, {})
    else:
        rc.atoms[k] = t
        r = ({((k, 1),): Fraction(1)}, {})
    rc.memo[k] = r
    return r


def _reduce_sqrt_poly(P, rc):
    """P == P' / D' where every atom Sqrt(a) occurs with power <= 1 in P' (Sqrt(a)^2 = a, a >= 0)"""
    D = dict(ONE)
    for _ in range(64):
        target = None
        for m in P:
            for k, e in m:
                if e >= 2 and sj.is_app_of(rc.atoms[k], "Sqrt", 1):
                    target = k
                    break
            if target is not None:
                break
        if target is None:
            return P, D
        arg = rc.atoms[target].arg(0)
        if not any(arg.eq(a) for a in rc.sqrt_args):
            rc.sqrt_args.append(arg)
        Pa, Fa = rat_of(arg, rc)
        Qa = rc.expand(Fa)
        qmax = max((dict(m).get(target, 0) // 2) for m in P)
        out = {}
        for m, c in P.items():
            d = dict(m)
            e = d.pop(target, 0)
            q, rem = e // 2, e % 2
            if rem:
                d[target] = 1
            mono = {tuple(sorted(d.items())): c}
            term = _pmul(_pmul(mono, _ppow(Pa, q)), _ppow(Qa, qmax - q))
            out = _padd(out, term)
        P = out
        D = _pmul(D, _ppow(Qa, qmax))
    raise RuntimeError("sqrt reduction did not terminate")


def rat_diff_is_zero(lhs, rhs, subst=()):
    """is lhs - rhs the zero rational function (after Sqrt(a)^2 -> a)?  returns (bool, RatCtx)"""
    rc = RatCtx()
    l, r = z3.simplify(lhs), z3.simplify(rhs)
    if subst:
        l, r = z3.substitute(l, *subst), z3.substitute(r, *subst)
    P1, F1 = rat_of(l, rc)
    P2, F2 = rat_of(r, rc)
    L = _flcm(F1, F2)
    N = _padd(rc.scale(P1, F1, L), rc.scale(P2, F2, L), -1)
    N, _ = _reduce_sqrt_poly(N, rc)
    return (not N), rc


def positive_atoms(assumptions):
    """variables x for which the assumptions contain the literal `x > 0` (or `0 < x`)"""
    pos = set()
    for a in assumptions:
        for c in (a.children() if z3.is_and(a) else [a]):
            if z3.is_app_of(c, z3.Z3_OP_GT) and sj.is_num(c.arg(1)) and sj.num_val(c.arg(1)) == 0 and z3.is_const(c.arg(0)):
                pos.add(c.arg(0).get_id())
            if z3.is_app_of(c, z3.Z3_OP_LT) and sj.is_num(c.arg(0)) and sj.num_val(c.arg(0)) == 0 and z3.is_const(c.arg(1)):
                pos.add(c.arg(1).get_id())
            if z3.is_not(c):          # the simplifier writes x > 0 as Not(x <= 0)
                d = c.arg(0)
                if z3.is_app_of(d, z3.Z3_OP_LE) and sj.is_num(d.arg(1)) and sj.num_val(d.arg(1)) == 0 and z3.is_const(d.arg(0)):
                    pos.add(d.arg(0).get_id())
                if z3.is_app_of(d, z3.Z3_OP_GE) and sj.is_num(d.arg(0)) and sj.num_val(d.arg(0)) == 0 and z3.is_const(d.arg(1)):
                    pos.add(d.arg(1).get_id())
    return pos


def syntactically_positive(t, pos):
    """t is built from positive numerals and variables known positive with + and * only (hence > 0)"""
    if sj.is_num(t):
        return sj.num_val(t) > 0
    if z3.is_const(t):
        return t.get_id() in pos
    if z3.is_add(t) or z3.is_mul(t):
        return all(syntactically_positive(c, pos) for c in t.children())
    return False


ASSUMED_SQRT = [0]
_DIV_OK = {}


def poly_positive(P, atoms, pos):
    """sufficient condition for P > 0: all coefficients positive, every atom either assumed positive or raised to an
    even power, and at least one monomial made of positive atoms only"""
    if not P:
        return False
    strict = False
    for m, c in P.items():
        if c <= 0:
            return False
        allpos = True
        for k, e in m:
            if atoms[k].get_id() in pos:
                continue
            allpos = False
            if e % 2:
                return False
        strict = strict or allpos
    return strict


def divisor_positive(d, pos):
    if syntactically_positive(d, pos):
        return True
    if sj.is_app_of(d, "Sqrt", 1):
        return divisor_positive(d.arg(0), pos)         # Sqrt(a) > 0 for a > 0
    if z3.is_mul(d):
        if all(divisor_positive(c, pos) for c in d.children()):
            return True
    try:
        rc = RatCtx()
        N, F = rat_of(z3.simplify(d), rc)
        N, D2 = _reduce_sqrt_poly(N, rc)
        if D2 != ONE:
            return False
        return poly_positive(N, rc.atoms, pos) and all(poly_positive(rc.factors[k], rc.atoms, pos) for k in F)
    except Exception:
        return False


def prove_rat_eq(lhs, rhs, assumptions=(), timeout_ms=None, subst=()):
    """lhs == rhs for rational functions over the reals (with square roots): cross-multiplied and brought to ring
    normal form with exact rational coefficients (after eliminating the variables in `subst`, which the assumptions
    determine, and using Sqrt(a)^2 = a).  The side condition that every divisor met is non-zero under the assumptions
    is decided syntactically (a polynomial with positive coefficients in variables assumed positive) or by the solver.
    Falls back to the plain solver query when the normal form is not zero or a side condition is not proved."""
    t0 = time.time()
    lhs, rhs = z3.simplify(lhs), z3.simplify(rhs)
    try:
        zero, rc = rat_diff_is_zero(lhs, rhs, subst)
    except RuntimeError:
        zero, rc = False, None
    if zero:
        pos = positive_atoms(assumptions)
        # divisors are checked on the un-substituted terms (the assumptions talk about those variables)
        rc0 = RatCtx()
        rat_of(lhs, rc0)
        rat_of(rhs, rc0)
        dens = []
        for d in rc0.divisors:
            if not divisor_positive(d, pos) and not any(d.eq(x) for x in dens):
                dens.append(d)
        ok = True
        sig = tuple(sorted(a.get_id() for a in assumptions))
        dens = [d for d in dens if (d.get_id(), sig) not in _DIV_OK]
        if dens:
            side = prove(z3.And(*[d != 0 for d in dens]), assumptions, timeout_ms=timeout_ms)
            ok = side.verdict == "unsat"
            if ok:
                for d in dens:
                    _DIV_OK[(d.get_id(), sig)] = (d, list(assumptions))      # keep the terms alive: ids stay unique
        if rc.sqrt_args:
            ASSUMED_SQRT[0] += len(rc.sqrt_args)     # Sqrt(a)^2 = a: a >= 0 (else the real code returns NaN: outside every claim)
        if ok:
            STATS.queries += 1
            STATS.unsat += 1
            STATS.normal_form += 1
            STATS.time += time.time() - t0
            return Result("unsat", time.time() - t0, reason="rational normal form")
    return prove(lhs == rhs, assumptions, timeout_ms=timeout_ms)


def resolve_ites(t, assumptions, budget_ms=2000):
    """replace every `ite(c, a, b)` whose condition is decided by the assumptions (assumptions |= c or |= not c, each
    checked by the solver) by the corresponding branch.  Sound: the result equals t wherever the assumptions hold."""
    cache = {}
    s = z3.Solver()
    s.set("timeout", budget_ms)
    for a in assumptions:
        s.add(a)

    known = {}
    for a in assumptions:
        known[a.get_id()] = True
        if z3.is_not(a):
            known[a.arg(0).get_id()] = False

    def decide(c):
        k = c.get_id()
        if k in known:
            return known[k]
        if k not in cache:
            v = None
            s.push(); s.add(z3.Not(c))
            if str(s.check()) == "unsat":
                v = True
            s.pop()
            if v is None:
                s.push(); s.add(c)
                if str(s.check()) == "unsat":
                    v = False
                s.pop()
            cache[k] = (v, c)
        return cache[k][0]

    memo = {}

    def go(e):
        k = e.get_id()
        if k in memo:
            return memo[k][0]
        if z3.is_app_of(e, z3.Z3_OP_ITE):
            v = decide(go(e.arg(0))) if not (z3.is_true(e.arg(0)) or z3.is_false(e.arg(0))) else z3.is_true(e.arg(0))
            if v is True:
                out = go(e.arg(1))
            elif v is False:
                out = go(e.arg(2))
            else:
                out = z3.If(go(e.arg(0)), go(e.arg(1)), go(e.arg(2)))
        elif z3.is_app(e) and e.num_args() > 0:
            ch = [go(c) for c in e.children()]
            out = e.decl()(*ch) if any(not a.eq(b) for a, b in zip(ch, e.children())) else e
        else:
            out = e
        memo[k] = (out, e)
        return out
    return go(t)


def has_ite(t):
    seen = set()
    stack = [t]
    while stack:
        e = stack.pop()
        if e.get_id() in seen:
            continue
        seen.add(e.get_id())
        if z3.is_app_of(e, z3.Z3_OP_ITE):
            return True
        stack.extend(e.children())
    return False


# --------------------------------------------------------------------------- path enumeration (value-dependent branches)
def _first_simple_ite_cond(terms):
    """condition of some `ite` in the terms that itself contains no `ite` (innermost first)"""
    seen = set()
    stack = list(terms)
    found = None
    while stack:
        e = stack.pop()
        if e.get_id() in seen:
            continue
        seen.add(e.get_id())
        if z3.is_app_of(e, z3.Z3_OP_ITE) and not has_ite(e.arg(0)):
            c = e.arg(0)
            if not (z3.is_true(c) or z3.is_false(c)):
                return c
        stack.extend(e.children())
    return found


def enumerate_paths(terms, assumptions, limit=256, budget_ms=3000):
    """all feasible truth assignments to the branch conditions (`ite` conditions, e.g. LU pivot choices, abs) of the
    given terms under the assumptions: the symbolic-execution paths of the value-dependent branches.  A branch whose
    feasibility the solver cannot decide is kept (more paths, never fewer).  Returns a list of condition lists."""
    paths = []

    def feasible(conds):
        s = z3.Solver()
        s.set("timeout", budget_ms)
        for a in list(assumptions) + conds:
            s.add(a)
        return str(s.check()) != "unsat"

    def rec(ts, conds):
        if len(paths) >= limit:
            raise RuntimeError("too many paths")
        ts = [resolve_ites(z3.simplify(t), list(assumptions) + conds) for t in ts]
        c = _first_simple_ite_cond(ts)
        if c is None:
            paths.append(conds)
            return
        for v in (c, z3.Not(c)):
            if feasible(conds + [v]):
                rec(ts, conds + [v])
    rec(list(terms), [])
    return paths
