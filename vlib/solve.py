"""Solver front end: every query has a timeout; unsat = holds within the bound, sat = candidate
counterexample (must be replayed before it is reported), unknown = inconclusive."""
from __future__ import annotations

import os
import subprocess
import tempfile
import time

import numpy as np
import z3

from . import symjax as sj

QUICK_TIMEOUT_MS = 60_000
THOROUGH_TIMEOUT_MS = 600_000


def tier():
    return os.environ.get("VERIF_TIER", "quick")


def default_timeout_ms():
    return THOROUGH_TIMEOUT_MS if tier() == "thorough" else QUICK_TIMEOUT_MS


class Stats:
    def __init__(self):
        self.queries = 0
        self.unsat = 0
        self.sat = 0
        self.unknown = 0
        self.time = 0.0
        self.second_opinions = 0
        self.second_disagree = 0


STATS = Stats()


def eq_goal(a, b, tol=None):
    """z3 Bool: a == b for two scalars (z3 terms or LogV)."""
    if isinstance(a, sj.LogV) and isinstance(b, sj.LogV):
        a, b = a.P, b.P
    else:
        a, b = sj.unlog(a), sj.unlog(b)
    if a.sort() != b.sort():
        if z3.is_bool(a) or z3.is_bool(b):
            a, b = sj.s_real(a), sj.s_real(b)
        else:
            a, b = sj.s_real(a), sj.s_real(b)
    if tol is not None and a.sort() == sj.RealS:
        d = a - b
        return z3.And(d < tol, d > -tol)
    return a == b


def eq_arrays(a, b, tol=None):
    """conjunction of elementwise equalities between two object arrays (broadcast)"""
    a, b = sj.obj(a), sj.obj(b)
    if a.shape != b.shape:
        try:
            a, b = np.broadcast_arrays(a, b)
        except ValueError:
            return z3.BoolVal(False)
    gs = []
    for idx in np.ndindex(a.shape):
        x, y = a[idx], b[idx]
        if not isinstance(x, sj.LogV) and not isinstance(y, sj.LogV) and x.eq(y):
            continue
        gs.append(eq_goal(x, y, tol))
    return z3.And(*gs) if gs else z3.BoolVal(True)


def eq_trees(a, b, tol=None):
    import jax
    isleaf = lambda t: isinstance(t, np.ndarray)
    la, ta = jax.tree_util.tree_flatten(a, is_leaf=isleaf)
    lb, tb = jax.tree_util.tree_flatten(b, is_leaf=isleaf)
    if ta != tb:
        return z3.BoolVal(False)
    gs = []
    for x, y in zip(la, lb):
        if isinstance(x, str) or isinstance(y, str):
            if x != y:
                return z3.BoolVal(False)
            continue
        gs.append(eq_arrays(x, y, tol))
    return z3.And(*gs) if gs else z3.BoolVal(True)


class Result:
    def __init__(self, verdict, t, model=None, solver=None, smt2=None, reason=""):
        self.verdict, self.time, self.model, self.solver, self.smt2, self.reason = verdict, t, model, solver, smt2, reason

    def __repr__(self):
        return f"<{self.verdict} {self.time:.3f}s>"


def prove(goal, assumptions=(), timeout_ms=None, want_smt2=False, tactic=None):
    """Is `goal` valid under `assumptions`?  unsat of (assumptions and not goal) = proved."""
    timeout_ms = timeout_ms or default_timeout_ms()
    t0 = time.time()
    g = z3.simplify(goal) if z3.is_expr(goal) else z3.BoolVal(bool(goal))
    if z3.is_true(g):
        STATS.queries += 1
        STATS.unsat += 1
        return Result("unsat", 0.0, reason="syntactic")
    # portfolio: default solver first (short budget), then the nlsat pipeline (decides many nonlinear identities the
    # default strategy does not), then the default solver with the full budget
    attempts = [("default", min(int(timeout_ms), 8000)), ("nlsat", int(timeout_ms) // 2), ("default", int(timeout_ms))]
    r, s = z3.unknown, None
    for which, budget in attempts:
        if which == "default":
            s = z3.Solver()
        else:
            try:
                s = z3.Then("simplify", "solve-eqs", "purify-arith", "qfnra-nlsat").solver()
            except Exception:
                continue
        s.set("timeout", budget)
        for a in assumptions:
            s.add(a)
        s.add(z3.Not(g))
        try:
            r = s.check()
        except z3.Z3Exception:
            r = z3.unknown
        if str(r) in ("sat", "unsat"):
            break
    dt = time.time() - t0
    STATS.queries += 1
    STATS.time += dt
    v = str(r)
    if v == "unsat":
        STATS.unsat += 1
    elif v == "sat":
        STATS.sat += 1
    else:
        STATS.unknown += 1
    return Result(v, dt, s.model() if v == "sat" else None, s, s.to_smt2() if want_smt2 else None,
                  reason=s.reason_unknown() if v == "unknown" else "")


def satisfiable(constraints, timeout_ms=None):
    """reachability twin: the assumptions must be satisfiable"""
    s = z3.Solver()
    s.set("timeout", int(timeout_ms or default_timeout_ms()))
    for a in constraints:
        s.add(a)
    t0 = time.time()
    r = s.check()
    STATS.queries += 1
    STATS.time += time.time() - t0
    return Result(str(r), time.time() - t0, s.model() if str(r) == "sat" else None, s)


def second_opinion(solver: z3.Solver, timeout_s=60):
    """Give the same SMT-LIB text to the independent /usr/bin/z3 4.8.12 binary."""
    txt = solver.to_smt2()
    with tempfile.NamedTemporaryFile("w", suffix=".smt2", delete=False, dir=os.environ.get("TMPDIR", "/tmp")) as f:
        f.write(txt)
        path = f.name
    try:
        out = subprocess.run(["/usr/bin/z3", f"-T:{timeout_s}", path], capture_output=True, text=True,
                             timeout=timeout_s + 10).stdout
    except Exception as e:
        out = f"error {e}"
    finally:
        os.unlink(path)
    STATS.second_opinions += 1
    if "(error" in out:
        return "error"
    first = out.strip().splitlines()[0] if out.strip() else "unknown"
    return first if first in ("sat", "unsat") else "unknown"
