"""C19: state/save is transparent and collects exactly what was saved."""
from __future__ import annotations

import numpy as np
import z3

import jax
import jax.numpy as jnp

from .. import symjax as sj, solve
from ..ch import runner

FUNCTIONS = ["State.eval_jaxpr_state", "state", "tag_state", "save", "namespace", "_namespace_push/_namespace_pop", "_nested_dict_set/_nested_dict_get", "batch rules of state.tag / namespace primitives"]
BOUNDS = {"programs": "20 generated programs (also: a namespace written before a scan and inside its body, the same name across two scans / outer body and inner scan, nested and three-level scans whose outer body saves nothing, leaf-mode save in a scan body): repeated names, nested namespaces, scans (nested; namespaces around and inside), vmap and modular_vmap, scan inside vmap, tag_state with several values, leaf-mode save; scan length <= 3, batch 2",
          "values": "all input values", "transformations": "eager (IR), jit(state(f)), seed(state(f))"}
ASSUMPTIONS = ["save inside cond branches is excluded, as in the property"]
EXPLANATION = "state(f) traced and compared, for all inputs, with f and with a recorder twin (Python loops instead of scan/vmap, explicit stacking, namespace stack, later write replaces)"


# --------------------------------------------------------------------------- two APIs for one program text
class RealAPI:
    def __init__(self, vmap_kind="jax"):
        self.vmap_kind = vmap_kind

    def save(self, *a, **kw):
        from genjax.state import save
        return save(*a, **kw)

    def tag(self, *vals, name):
        from genjax.state import tag_state
        return tag_state(*vals, name=name)

    def namespace(self, fn, ns):
        from genjax.state import namespace
        return namespace(fn, ns)

    def scan(self, body, init, xs):
        return jax.lax.scan(body, init, xs)

    def vmap(self, fn):
        if self.vmap_kind == "modular":
            from genjax import modular_vmap
            return modular_vmap(fn, in_axes=0)
        return jax.vmap(fn)


class Recorder:
    """reference semantics of save/tag_state/namespace/scan/vmap collection"""

    def __init__(self):
        self.root = {}
        self.stack = []

    def _cur(self):
        d = self.root
        for ns in self.stack:
            d = d.setdefault(ns, {})
        return d

    def save(self, *a, **kw):
        if a:
            # leaf mode: the value is stored AT the namespace path
            d = self.root
            for ns in self.stack[:-1]:
                d = d.setdefault(ns, {})
            d[self.stack[-1]] = a[0] if len(a) == 1 else tuple(a)
            return a[0] if len(a) == 1 else tuple(a)
        for k, v in kw.items():
            self._cur()[k] = v
        return dict(kw)

    def tag(self, *vals, name):
        self._cur()[name] = vals[0] if len(vals) == 1 else tuple(vals)
        return vals[0] if len(vals) == 1 else tuple(vals)

    def namespace(self, fn, ns):
        def wrapped(*a, **kw):
            self.stack.append(ns)
            try:
                return fn(*a, **kw)
            finally:
                self.stack.pop()
        return wrapped

    def _sub(self, fn, *args):
        """run fn with a fresh collection rooted at the current namespace; return (result, collected)"""
        saved_root, saved_stack = self.root, self.stack
        self.root, self.stack = {}, list(saved_stack)        # the body runs inside the enclosing namespaces
        try:
            r = fn(*args)
            col = self.root                                   # paths from the ROOT of the collection
        finally:
            self.root, self.stack = saved_root, saved_stack
        return r, col

    def _merge_into_current(self, col):
        """what a scan / vmap body collected is written into the enclosing collection name by name: a later write to
        the same NAME replaces the earlier one, other names under the same namespace stay"""
        def merge(dst, src):
            for k, v in src.items():
                if isinstance(v, dict) and isinstance(dst.get(k), dict):
                    merge(dst[k], v)
                else:
                    dst[k] = v
        merge(self.root, col)

    def scan(self, body, init, xs):
        n = jax.tree_util.tree_leaves(xs)[0].shape[0]
        c = init
        ys, cols = [], []
        for i in range(n):
            (c, y), col = self._sub(body, c, jax.tree_util.tree_map(lambda l: l[i], xs))
            ys.append(y)
            cols.append(col)
        stacked = jax.tree_util.tree_map(lambda *v: jnp.stack(v), *cols) if cols else {}
        self._merge_into_current(stacked)
        return c, jax.tree_util.tree_map(lambda *v: jnp.stack(v), *ys)

    def vmap(self, fn):
        def wrapped(xs):
            n = jax.tree_util.tree_leaves(xs)[0].shape[0]
            rs_, cols = [], []
            for i in range(n):
                r, col = self._sub(fn, jax.tree_util.tree_map(lambda l: l[i], xs))
                rs_.append(r)
                cols.append(col)
            self._merge_into_current(jax.tree_util.tree_map(lambda *v: jnp.stack(v), *cols))
            return jax.tree_util.tree_map(lambda *v: jnp.stack(v), *rs_)
        return wrapped


# --------------------------------------------------------------------------- programs
def programs():
    P = {}

    def flat(api, x):
        a = api.save(a=x * 2.0)["a"]
        api.save(b=x + 1.0, c=x * x)
        api.save(a=a * 3.0)                     # later write replaces the earlier one
        return a + x
    P["flat_overwrite"] = (flat, np.float32(0.5))

    def nested_ns(api, x):
        def inner(v):
            api.save(nested=v * 2.0)
            return v + 1.0
        def deep(v):
            api.save(deep_val=v * 3.0)
            return v
        api.save(root=x)
        y = api.namespace(inner, "inner")(x)
        z = api.namespace(api.namespace(deep, "deep"), "outer")(y)
        return y + z
    P["nested_namespaces"] = (nested_ns, np.float32(0.5))

    def scan1(api, xs):
        def body(c, x):
            c2 = c + x
            api.save(s=c2, t=x * 2.0)
            return c2, c2 * 0.5
        fin, ys = api.scan(body, 0.0, xs)
        api.save(final=fin)
        return fin, ys
    P["scan"] = (scan1, np.asarray([0.1, 0.2, 0.3], dtype=np.float32))

    def scan2(api, xs):
        def outer(c, x):
            def inner(d, y):
                api.save(inner_v=d * y)
                return d + y, d
            d, _ = api.scan(inner, c, jnp.stack([x, x * 2.0]))
            api.save(outer_v=d)
            return d, d
        return api.scan(outer, 1.0, xs)
    P["nested_scan"] = (scan2, np.asarray([0.1, 0.2], dtype=np.float32))

    def ns_around_scan(api, xs):
        def run(xs):
            def body(c, x):
                api.save(s=c + x)
                return c + x, c
            return api.scan(body, 0.0, xs)
        api.save(before=xs[0])
        return api.namespace(run, "loop")(xs)
    P["namespace_around_scan"] = (ns_around_scan, np.asarray([0.1, 0.2, 0.3], dtype=np.float32))

    def ns_inside_scan(api, xs):
        def body(c, x):
            def step(v):
                api.save(v=v)
                return v * 2.0
            r = api.namespace(step, "step")(c + x)
            return r, r
        return api.scan(body, 0.5, xs)
    P["namespace_inside_scan"] = (ns_inside_scan, np.asarray([0.1, 0.2], dtype=np.float32))

    def vmapped(api, xs):
        def lane(x):
            api.save(sq=x * x)
            return x + 1.0
        return api.vmap(lane)(xs)
    P["vmap"] = (vmapped, np.asarray([0.1, 0.2], dtype=np.float32))

    def scan_in_vmap(api, xs):
        def lane(x):
            def body(c, _):
                api.save(c=c)
                return c * x, c
            return api.scan(body, 1.0, jnp.zeros(2))[0]
        return api.vmap(lane)(xs)
    P["scan_inside_vmap"] = (scan_in_vmap, np.asarray([0.5, 0.25], dtype=np.float32))

    def multi_tag(api, x):
        a, b = api.tag(x, x * 2.0, name="pair")
        c = api.tag(a + b, name="single")
        return c
    P["tag_state_multiple"] = (multi_tag, np.float32(0.5))

    def leaf_mode(api, x):
        def f(v):
            api.save(v * 2.0)        # leaf mode: stored at the namespace path
            return v
        api.namespace(api.namespace(f, "leaf"), "coords")(x)
        api.save(other=x)
        return x
    P["leaf_mode"] = (leaf_mode, np.float32(0.5))

    def same_name_ns(api, x):
        def f(v):
            api.save(val=v)
            return v + 1.0
        a = api.namespace(f, "a")(x)
        b = api.namespace(f, "b")(a)
        api.save(val=b)
        return b
    P["same_name_in_namespaces"] = (same_name_ns, np.float32(0.5))

    def ns_scan_ns(api, xs):
        def run(xs):
            def body(c, x):
                def step(v):
                    api.save(v=v)
                    return v + x
                r = api.namespace(step, "in")(c)
                api.save(r=r)
                return r, r
            return api.scan(body, 0.0, xs)
        return api.namespace(run, "out")(xs)
    P["namespace_scan_namespace"] = (ns_scan_ns, np.asarray([0.1, 0.2], dtype=np.float32))
    # ---- the same namespace written before a scan and inside its body, repeated names across scans, scans whose
    # ---- outer body saves nothing, leaf-mode save in a scan body
    def sibling_then_scan(api, xs):
        def pre(v):
            api.save(a=v * 3.0)
            return v
        def body(c, x):
            def step(v):
                api.save(b=v)
                return v + x
            r = api.namespace(step, "in")(c)
            return r, r
        api.namespace(pre, "in")(xs[0])
        return api.scan(body, 0.5, xs)
    P["namespace_sibling_then_scan"] = (sibling_then_scan, np.asarray([0.1, 0.2, 0.3], dtype=np.float32))

    def same_name_before_and_in_scan(api, xs):
        def pre(v):
            api.save(b=v * 3.0)
            return v
        def body(c, x):
            def step(v):
                api.save(b=v)
                return v + x
            r = api.namespace(step, "in")(c)
            return r, r
        api.namespace(pre, "in")(xs[0])
        return api.scan(body, 0.5, xs)
    P["same_name_before_and_in_scan"] = (same_name_before_and_in_scan, np.asarray([0.1, 0.2, 0.3], dtype=np.float32))

    def two_scans_same_name(api, xs):
        def body(c, x):
            def step(v):
                api.save(b=v)
                return v + x
            r = api.namespace(step, "in")(c)
            return r, r
        c1, _ = api.scan(body, 0.5, xs)
        return api.scan(body, c1, xs[:2] * 2.0)
    P["two_scans_same_name"] = (two_scans_same_name, np.asarray([0.1, 0.2, 0.3], dtype=np.float32))

    def outer_then_inner_same_name(api, xs):
        def outer(c, x):
            def tagb(v):
                api.save(b=v)
                return v
            api.namespace(tagb, "in")(c)
            def inner(d, y):
                r = api.namespace(tagb, "in")(d * y)
                return d + y, r
            d, _ = api.scan(inner, c, jnp.stack([x, x * 2.0]))
            return d, d
        return api.scan(outer, 1.0, xs)
    P["outer_then_inner_scan_same_name"] = (outer_then_inner_same_name, np.asarray([0.1, 0.2, 0.3], dtype=np.float32))

    def only_inner_saves(api, xs):
        def outer(c, x):
            def inner(d, y):
                api.save(i=d, sq=y * y)
                return d + y, d
            d, _ = api.scan(inner, c, jnp.stack([x, x * 2.0]))
            return d, d                       # the outer body saves nothing itself
        return api.scan(outer, 1.0, xs)
    P["nested_scan_only_inner_saves"] = (only_inner_saves, np.asarray([0.1, 0.2, 0.3], dtype=np.float32))

    def three_levels(api, xs):
        def outer(c, x):
            def middle(d, y):
                def inner(e, z):
                    api.save(k=e * z)
                    return e + z, e
                e, _ = api.scan(inner, d, jnp.stack([y, y + 1.0]))
                api.save(m=e)
                return e, e
            d, _ = api.scan(middle, c, jnp.stack([x, x * 2.0]))
            return d, d                       # nothing saved at this level
        return api.scan(outer, 1.0, xs)
    P["three_level_scan"] = (three_levels, np.asarray([0.1, 0.2], dtype=np.float32))

    def ns_only_inner(api, xs):
        def run(xs):
            def outer(c, x):
                def inner(d, y):
                    def step(v):
                        api.save(i=v)
                        return v
                    api.namespace(step, "step")(d)
                    return d + y, d
                d, _ = api.scan(inner, c, jnp.stack([x, x * 2.0]))
                return d, d
            return api.scan(outer, 1.0, xs)
        return api.namespace(run, "loop")(xs)
    P["namespace_nested_scan_only_inner_saves"] = (ns_only_inner, np.asarray([0.1, 0.2], dtype=np.float32))

    def leaf_in_scan(api, xs):
        def run(xs):
            def body(c, x):
                api.save(c + x)                # leaf mode inside a scan body, under the namespace "coords"
                return c + x, c
            return api.scan(body, 0.0, xs)
        return api.namespace(run, "coords")(xs)
    P["leaf_mode_in_scan_under_namespace"] = (leaf_in_scan, np.asarray([0.1, 0.2], dtype=np.float32))
    return P


def groups(tier, seed):
    gs = [f"prog:{k}" for k in programs()]
    gs += ["mvmap:vmap", "mvmap:scan_inside_vmap", "jit:scan", "jit:nested_namespaces", "seed:sampling", "helpers"]
    return gs


def dict_paths(d, prefix=()):
    out = {}
    for k, v in d.items():
        if isinstance(v, dict):
            out.update(dict_paths(v, prefix + (k,)))
        else:
            out[prefix + (k,)] = v
    return out


def compare(g, tag, T_real, T_plain, T_ref):
    res_real, col_real = T_real.outs
    res_plain = T_plain.outs
    res_ref, col_ref = T_ref.outs
    g.eq(f"{tag}: state(f) returns f's result", res_real, res_plain)
    pr, pf = dict_paths(col_real), dict_paths(col_ref)
    g.ok(f"{tag}: collected names and namespace nesting are exactly those saved", set(pr) == set(pf),
         f"collected {sorted(pr)} expected {sorted(pf)}")
    import itertools
    for k in sorted(set(pr) & set(pf)):
        if isinstance(pr[k], (tuple, list)) or isinstance(pf[k], (tuple, list)):
            g.eq(f"{tag}: value collected at {'/'.join(k)}", tuple(pr[k]), tuple(pf[k]))
            continue
        a, b = sj.obj(pr[k]), sj.obj(pf[k])
        if a.ndim >= 2 and b.ndim == a.ndim:
            # a value saved under BOTH a scan and a vmap is stacked and batched; the property does not fix the
            # order of the two axes: accept any axis order
            for perm in itertools.permutations(range(b.ndim)):
                bp = np.transpose(b, perm)
                if bp.shape == a.shape and z3.is_true(z3.simplify(solve.eq_arrays(a, bp))):
                    b = bp
                    break
        if a.shape != b.shape:
            g.ok(f"{tag}: value collected at {'/'.join(k)}", False, f"collected shape {a.shape}, saved values stack to shape {b.shape}")
            continue
        g.eq(f"{tag}: value collected at {'/'.join(k)}", a, b)


def run_group(g, gid):
    from genjax.state import state
    kind, _, name = gid.partition(":")
    if kind == "helpers":
        return helpers(g)
    if kind == "seed":
        return seeded(g)
    fn, ex = programs()[name]
    g.programs.add(name)
    api = RealAPI("modular" if kind == "mvmap" else "jax")
    if kind == "jit":
        real = lambda x: jax.jit(state(lambda v: fn(api, v)))(x)
    else:
        real = lambda x: state(lambda v: fn(api, v))(x)
    tag = f"{name}" + ("" if kind == "prog" else f" [{kind}]")
    T_real = g.try_trace(f"{tag}: state(f) traces", real, ex)
    if T_real is None:
        return
    T_plain = g.try_trace(f"{tag}: f traces", lambda x: fn(api, x), ex, sym_in=T_real.flat_in)

    def ref(x):
        rec = Recorder()
        r = fn(rec, x)
        return r, rec.root
    T_ref = g.try_trace(f"{tag}: recorder twin traces", ref, ex, sym_in=T_real.flat_in)
    if T_plain is None or T_ref is None:
        return
    import inspect
    g.sample(program=inspect.getsource(fn)[:600])
    compare(g, tag, T_real, T_plain, T_ref)


def seeded(g):
    from genjax.state import state, save
    from genjax import seed, normal

    def f(mu):
        x = normal.sample(mu, 1.0)
        save(x=x)
        def body(c, _):
            y = normal.sample(c, 1.0)
            save(y=y)
            return y, y
        fin, ys = jax.lax.scan(body, x, None, length=2)
        return fin
    T = g.try_trace("seed(state(f)) traces", lambda k, m: seed(state(f))(k, m), jax.random.key(0), np.float32(0.1))
    if T is None:
        return
    T.no_validate = True
    T2 = None and g.try_trace("seed(f) traces", lambda k, m: seed(lambda mm: _with_ys(f, mm))(k, m), jax.random.key(0), np.float32(0.1), sym_in=T.flat_in)
    res, col = T.outs
    g.ok("seed(state(f)): collected names", set(dict_paths(col)) == {("x",), ("y",)}, str(sorted(dict_paths(col))))
    # x saved == first draw, y saved == stacked scan draws: the final y equals the result
    g.eq("seed(state(f)): last stacked y is the returned value", sj.obj(col["y"])[-1], res)
    g.ok("seed(state(f)): y is stacked along the iteration axis", sj.obj(col["y"]).shape == (2,))


def _with_ys(f, m):
    return f(m)


HELPERS_PRE = '''from genjax.state import _nested_dict_set, _nested_dict_get
AL = ("a", "b", "c")
'''

HELPERS = '''def set_get(i1: int, i2: int, i3: int, i4: int, i5: int, depth: int) -> bool:
    """
    pre: 0 <= i1 < 3 and 0 <= i2 < 3 and 0 <= i3 < 3 and 0 <= i4 < 3 and 0 <= i5 < 3 and 0 <= depth <= 3
    post: _
    """
    k1, k2, k3, name, other = AL[i1], AL[i2], AL[i3], AL[i4], AL[i5]
    path = (k1, k2, k3)[:depth]
    d = {}
    _nested_dict_set(d, path, other, 7)
    _nested_dict_set(d, path, name, 1)
    _nested_dict_set(d, path, name, 2)      # later write replaces
    cur = d
    for k in path:
        if not isinstance(cur, dict) or k not in cur:
            return False
        cur = cur[k]
    if cur.get(name) != 2:
        return False
    if other != name and cur.get(other) != 7:
        return False
    return True
'''


def helpers(g):
    """namespace-dict helpers on symbolic names (CrossHair)"""
    res, path, d = runner.run_units([("set_get", HELPERS)], HELPERS_PRE, timeout_s=200, jobs=1)
    try:
        v, detail, secs = res["set_get"]
        desc = "_nested_dict_set: value stored under the namespace path, later write replaces, sibling names kept (names from a 3-letter alphabet via symbolic indices, depth <= 3)"
        g._nontrivial.add(desc)
        if v == "confirmed":
            g._rec(desc, "proved", time=secs, detail="CrossHair: Confirmed over all paths")
        elif v == "counterexample":
            rep, txt = runner.replay_counterexample(path, detail)
            g._rec(desc, "violation" if rep else "inconclusive", detail=f"{detail} / {txt}", replay_kind="structural")
        else:
            g._rec(desc, "inconclusive", detail=f"CrossHair {v}: {detail}")
    finally:
        import shutil
        shutil.rmtree(d, ignore_errors=True)
