"""C03: update returns the density ratio, keeps unconstrained choices, and is invertible.

Inductive step: the pre-state is an arbitrary *coherent* trace (every leaf of the trace pytree is a
free variable constrained only by the representation invariant), new arguments and new values are
free, Cond conditions are free (branch switches are inside the quantifier)."""
from __future__ import annotations

import numpy as np
import z3

import jax

from .. import symjax as sj, refsem as rs, corpus, gfi, solve

FUNCTIONS = ["Update handler", "Distribution.update", "Fn.update", "Vmap.update", "Scan.update", "Cond.update",
             "Fn.merge", "Distribution.merge", "Trace.update"]
BOUNDS = {"programs": "corpus", "constraints": "every subset of leaf addresses (<= 5)", "pre-state": "arbitrary coherent trace (symbolic leaves + invariant)",
          "arguments": "old and new arguments independent and arbitrary (flip Cond conditions, change Scan/Vmap inputs)"}
ASSUMPTIONS = ["pre-state satisfies the coherent-trace invariant (base case: C01/C02 prove simulate/generate establish it)",
               "old and new choices in the support"]
EXPLANATION = "one update from an arbitrary coherent trace; weight vs reference density ratio, coherence of the result, discard, round trip"


def groups(tier, seed):
    return [f"update:{c.name}" for c in corpus.cases(tier)]


def coherent_pre(case, tr_s):
    pre = rs.canon_trace(tr_s)
    state = rs.state_of_canon(pre)
    a_old, kw_old = rs.args_of_canon(pre)
    rctx = rs.RefCtx()
    ref_old = rs.ref_eval(rs.recorded_view(case.prog), state, list(a_old), dict(kw_old), rctx)
    inv = solve.eq_trees(pre, ref_old.canon())
    return pre, state, a_old, kw_old, ref_old, [inv] + list(rctx.support)


def run_group(g, gid):
    kind, _, name = gid.partition(":")
    case = corpus.get(name)
    gf = rs.to_genjax(case.prog)
    g.programs.add(case.name)
    g.sample(program=rs.source(case.prog), group=gid)
    tr0 = gfi.example_trace(gf, case.args, case.kwargs)
    cm = gfi.example_choices(gf, case.args, case.kwargs)
    paths = gfi.leaf_paths(cm)
    for C in gfi.subsets(paths):
        tag = "{" + ",".join("/".join(p) for p in C) + "}"
        x = rs.submap(cm, C)

        def f(tr, x, args, kwargs):
            new, w, d = gf.update(tr, x, *args, **kwargs)
            return new, w, d, new.get_choices(), new.get_score(), new.get_retval()
        T = g.try_trace(f"update{tag} traces", f, tr0, x, tuple(case.args), case.kwargs)
        if T is None:
            continue
        tr_s, x_s, args_s, kw_s = T.ins
        new, w, d, ch, score, retval = T.outs
        pre, state, a_old, kw_old, ref_old, inv = coherent_pre(case, tr_s)
        new_state = rs.overwrite_state(case.prog, ref_old.get_choices(), x_s)
        rctx = rs.RefCtx()
        ref_new = rs.ref_eval(case.prog, new_state, list(args_s), kw_s, rctx)
        A = inv + list(rctx.support)
        cs = gfi.check_cases(ref_old, ref_new)
        g.eq(f"update{tag}: result is coherent under the new arguments (constrained hold new, others keep old values)",
             rs.canon_trace(new), ref_new.canon(), A, cases=cs)
        g.eq(f"update{tag}: weight == log p(new; new args) - log p(old; old args)", w,
             gfi.sub(ref_old.get_score(), ref_new.get_score()), A, cases=cs)
        g.eq(f"update{tag}: visible choices", ch, ref_new.get_choices(), A)
        g.eq(f"update{tag}: score/retval accessors", (score, retval), (ref_new.get_score(), ref_new.get_retval()), A)
        old_vis = ref_old.get_choices()
        for pth in C:
            try:
                dv = rs.get_path(d, pth)
            except Exception:
                dv = None
            if dv is None:
                g.ok(f"update{tag}: discard holds old value of {'/'.join(pth)}", False, "address missing from discard")
            else:
                g.eq(f"update{tag}: discard holds old value of {'/'.join(pth)}", dv, rs.get_path(old_vis, pth), A)
        if C:
            # round trip with the discard restricted to the overwritten addresses and the old arguments
            def f2(tr, x, args, kwargs, old_args, old_kwargs):
                new, w, d = gf.update(tr, x, *args, **kwargs)
                back, w2, _ = gf.update(new, rs.submap(d, C), *old_args, **old_kwargs)
                return w, w2, back.get_choices()
            T2 = g.try_trace(f"update{tag}: round trip traces", f2, tr0, x, tuple(case.args), case.kwargs,
                             tuple(case.args), case.kwargs)
            if T2 is not None:
                tr2, x2, a2, k2, oa2, ok2 = T2.ins
                pre2, st2, a_old2, kw_old2, ref_old2, inv2 = coherent_pre(case, tr2)
                tie = [solve.eq_trees((rs.recorded_args(case.prog, tuple(oa2)), ok2), (tuple(a_old2), dict(kw_old2)))]
                rc2 = rs.RefCtx()
                rs.ref_eval(case.prog, rs.overwrite_state(case.prog, ref_old2.get_choices(), x2), list(a2), k2, rc2)
                w_, w2_, backch = T2.outs
                A2 = inv2 + tie + list(rc2.support)
                g.eq(f"update{tag}: updating back with the discard restores the choices", backch, ref_old2.get_choices(), A2)
                g.eq(f"update{tag}: ... with the negated weight", w2_, gfi.neg(w_), A2, cases=gfi.check_cases(ref_old2))
    # Trace.update convenience == explicit call with the stored arguments
    def f3(tr, x):
        n1, w1, _ = tr.update(x)
        return n1.get_choices(), w1
    if paths and case.prog.kind == "fn":
        x = rs.submap(cm, paths[:1])
        T3 = g.try_trace("Trace.update(x) traces", f3, tr0, x)
        if T3 is not None:
            tr_s, x_s = T3.ins
            pre, state, a_old, kw_old, ref_old, inv = coherent_pre(case, tr_s)
            ref_new = rs.ref_eval(case.prog, rs.overwrite_state(case.prog, ref_old.get_choices(), x_s), list(a_old), dict(kw_old), rs.RefCtx())
            ch1, w1 = T3.outs
            g.eq("Trace.update(x) re-uses the stored arguments: choices", ch1, ref_new.get_choices(), inv)
            g.eq("Trace.update(x) re-uses the stored arguments: weight", w1, gfi.sub(ref_old.get_score(), ref_new.get_score()), inv)
