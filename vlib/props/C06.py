"""C06: seed(f)(key, *args) is a pure, transform-stable function of key and arguments."""
from __future__ import annotations

import numpy as np
import z3

import jax
import jax.numpy as jnp

from .. import symjax as sj, solve, seeded, keys

FUNCTIONS = ["Seed.eval_jaxpr_seed", "Seed.eval", "seed", "stage", "cached_stage_dynamic", "KeylessWrapper", "FlatSamplerCache",
             "create_sample_primitive", "GlobalKeyCounter"]
BOUNDS = {"programs": "simulate of 9 corpus programs (15 thorough) + raw functions with lax.cond, lax.switch, nested scans, kwargs, sample_shape, nested seed",
          "hidden state": "ENUMERATED: global_counter.count in {0, 7, 10**6}; 0/1/3 interleaved unseeded and seeded draws of other programs; cold vs warm staging/sampler caches",
          "values": "all keys (free key algebra) and all argument values", "vmap": "batch of 2 keys", "scan": "length <= 3"}
ASSUMPTIONS = ["PRNG abstraction: keys are a free algebra (Root/Split/Fold), random_bits(k)[j] = Bits(k,j) uninterpreted; threefry collision-freeness is trusted",
               "jit is compared at IR level (XLA compilation itself is outside the claim)"]
EXPLANATION = "2-safety over hidden process state: the IR of seed(f) is re-generated in perturbed process states and proved equal for all keys/args; key provenance; jit and vmap-over-keys stability"


def groups(tier, seed):
    return [f"pure:{p[0]}" for p in seeded.programs(tier)] + ["twin:leaky", "concrete_index"]


def concrete_index(g):
    """Run eagerly, seed(f) meets CONCRETE branch indices; under jit / vmap-over-keys they are tracers.  Both ways of
    meeting the same cond must derive the same keys: the IR with the predicate a closed-over constant (concrete for the
    interpreter) equals the IR with the predicate an argument (a tracer), at that value."""
    from genjax import seed, normal

    def body(flag, mu):
        y = jax.lax.cond(flag, lambda m: normal.sample(m, 1.0) + normal.sample(m, 2.0), lambda m: m * 2.0, mu)
        z = normal.sample(mu, 1.0)
        return y, z, normal.sample(z, 1.0)
    for val in (True, False):
        const = jnp.asarray(val)
        # (Under an outer trace every primitive application is staged, so even a predicate computed from constants reaches
        # the interpreter as a tracer; a branch of the interpreter taken ONLY for concrete values cannot be reached by
        # tracing -- see DESIGN section 7.  jax.ensure_compile_time_eval was tried as an emulation of the eager path and
        # rejected: it changes how genjax's own staging behaves and raised on the unchanged tree, a false alarm.)
        Tc = g.try_trace(f"seed(f) with a constant cond predicate ({val}) traces", lambda k, mu: seed(lambda m: body(const, m))(k, mu),
                         jax.random.key(0), np.float32(0.3))
        Tt = g.try_trace(f"seed(f) with a traced cond predicate traces", lambda k, fl, mu: seed(lambda f_, m: body(f_, m))(k, fl, mu),
                         jax.random.key(0), np.bool_(val), np.float32(0.3))
        if Tc is None or Tt is None:
            continue
        Tc.no_validate = Tt.no_validate = True
        kc, mc = Tc.flat_in
        kt, ft, mt = Tt.flat_in
        sub = [(sj.obj(kt).item(), sj.obj(kc).item()), (sj.obj(mt).item(), sj.obj(mc).item()), (sj.obj(ft).item(), z3.BoolVal(val))]
        outs_t = [np.vectorize(lambda e: z3.simplify(z3.substitute(e, *sub)), otypes=[object])(sj.obj(o)) for o in Tt.flat_out]
        r = g.eq(f"predicate {val}: a cond whose predicate is a closed-over constant and the same cond with the predicate passed as an argument give the same draws",
                 [sj.obj(o) for o in Tc.flat_out], outs_t)
        if r is not None and r["verdict"] == "inconclusive" and "sat" in str(r.get("detail", "")):
            # key-typed inputs cannot be replayed through the numeric evaluator: replay concretely, eager against jit
            # (location 0 and power-of-two scales keep loc + scale * z free of fused-multiply-add differences)
            try:
                fn = lambda k: seed(lambda m: body(const, m))(k, jnp.float32(0.0))
                diffs = []
                for ks in (0, 3, 11):
                    a = jax.tree_util.tree_leaves(fn(jax.random.key(ks)))
                    b = jax.tree_util.tree_leaves(jax.jit(fn)(jax.random.key(ks)))
                    if not all(np.array_equal(np.asarray(x), np.asarray(y)) for x, y in zip(a, b)):
                        diffs.append((ks, [float(x) for x in a], [float(y) for y in b]))
                if diffs:
                    r["verdict"], r["replay_kind"] = "violation", "structural"
                    r["detail"] = f"solver: the two IRs differ; concrete replay: key {diffs[0][0]}: eager {diffs[0][1]} != jit {diffs[0][2]}"
            except Exception as e:
                r["detail"] = str(r.get("detail", "")) + f"; concrete replay failed: {type(e).__name__}: {e}"


def leaky_twin(g):
    """seeded-fault twin: a function that leaks the global counter into a seeded run must be caught by
    both the provenance check and the hidden-state 2-safety query"""
    from genjax import seed, pjax, normal

    def leaky(mu):
        pjax.global_counter.count += 1
        k = jax.random.key(pjax.global_counter.count)
        return jax.random.normal(k) + normal.sample(mu, 1.0)
    pjax.global_counter.count = 0
    T0 = sj.sym_trace(lambda k, m: seed(leaky)(k, m), jax.random.key(0), np.float32(0.1))
    pjax.global_counter.count = 41
    try:
        pjax.cached_stage_dynamic.cache_clear()
    except Exception:
        pass
    jax.clear_caches()
    T1 = sj.sym_trace(lambda k, m: seed(leaky)(k, m), jax.random.key(0), np.float32(0.1), sym_in=T0.flat_in)
    pjax.global_counter.count = 0
    caught1 = any(c[0] == "bits" and keys.has_const_key(c[1]) for c in T0.ctx.consumed)
    r = solve.prove(solve.eq_trees(T0.outs, T1.outs))
    g.fault_twins_ok += int(caught1) + int(r.verdict == "sat")
    if not caught1 or r.verdict != "sat":
        g._rec("fault-twin:leaky", "error", detail=f"leak not detected: provenance={caught1} 2-safety={r.verdict}")
    else:
        g._rec("teeth: a counter-leaking function is caught by provenance and by the 2-safety query", "proved", time=r.time)


def perturb(i):
    """change process-global hidden state between two tracings of seed(f)"""
    from genjax import pjax, normal, flip, seed
    if i == 1:
        pjax.global_counter.count = 7
        normal.sample(0.0, 1.0)                       # unseeded draw (eager)
    elif i == 2:
        pjax.global_counter.count = 10 ** 6
        for _ in range(3):
            flip.sample(0.5)
            seed(lambda: normal.sample(0.0, 1.0))(jax.random.key(3))
        try:
            pjax.cached_stage_dynamic.cache_clear()
        except Exception:
            pass
        jax.clear_caches()
    elif i == 3:
        pjax.global_counter.count = 0


def run_group(g, gid):
    if gid == "concrete_index":
        return concrete_index(g)
    from genjax import seed, pjax
    kind, _, name = gid.partition(":")
    if kind == "twin":
        return leaky_twin(g)
    pname, fn, args, kwargs, case = seeded.get(name)
    g.programs.add(pname)

    def seeded_fn(key, args, kwargs):
        return seed(lambda a, kw: fn(*a, **kw))(key, args, kwargs)

    pjax.global_counter.count = 0
    T0 = g.try_trace("seed(f) traces", seeded_fn, jax.random.key(0), args, kwargs)
    if T0 is None:
        return
    T0.no_validate = True
    key0 = T0.flat_in[0].item()
    g.sample(program=pname, n_eqns=T0.n_eqns, consumed_keys=[str(c[1]) for c in T0.ctx.consumed][:6])
    g.ok("seed removes every sampling site", len(T0.sites) == 0, f"{len(T0.sites)} residual sites")
    # (b) provenance of every key whose bits are drawn
    bad = [str(c[1]) for c in T0.ctx.consumed if c[0] == "bits" and (keys.has_const_key(c[1]) or not keys.derives_from(c[1], key0))]
    nested_seed_ok = pname == "raw_nested_seed"
    if nested_seed_ok:
        # an explicit inner seed with its own constant key is the user's choice; only that key may be constant
        bad = [b for b in bad if "Seeded(7)" not in b and "KeyOfData" not in b]
    g.ok("every random draw uses a key derived from the key argument (no hidden/global key)", not bad, "; ".join(bad[:3]))
    g.ok("the program draws random bits at all (non-vacuous)", any(c[0] == "bits" for c in T0.ctx.consumed))
    # (a) purity w.r.t. hidden state
    for i in (1, 2, 3):
        perturb(i)
        Ti = g.try_trace(f"seed(f) traces in perturbed process state {i}", seeded_fn, jax.random.key(0), args, kwargs,
                         sym_in=T0.flat_in)
        if Ti is None:
            continue
        Ti.no_validate = True
        r = g.eq(f"same result as in the initial process state, for all keys and arguments (state {i})", Ti.outs, T0.outs)
        if r["verdict"] == "inconclusive":
            concrete_twin(g, r, fn, args, kwargs, i)
    pjax.global_counter.count = 0
    # (c) jit
    Tj = g.try_trace("jit(seed(f)) traces", lambda k, a, kw: jax.jit(seeded_fn)(k, a, kw), jax.random.key(0), args, kwargs,
                     sym_in=T0.flat_in)
    if Tj is not None:
        Tj.no_validate = True
        g.eq("jit(seed(f)) == seed(f) for all keys and arguments (IR level)", Tj.outs, T0.outs)
    # (c) vmap over keys
    ks = jax.random.split(jax.random.key(0), 2)
    Tv = g.try_trace("vmap(seed(f)) over keys traces", lambda k, a, kw: jax.vmap(lambda kk: seeded_fn(kk, a, kw))(k),
                     ks, args, kwargs, sym_in=[sj.fresh_like((2,), ks.dtype, "kv")] + list(T0.flat_in[1:]))
    if Tv is not None:
        Tv.no_validate = True
        kv = Tv.flat_in[0]
        for lane in range(2):
            want = [subst(o, key0, kv[lane]) for o in T0.flat_out]
            got = [sj.obj(o)[lane] for o in Tv.flat_out]
            g.eq(f"lane {lane} of vmap(seed(f))(keys) == seed(f)(keys[{lane}])", got, want)
        g.ok("vmap lanes draw from their own keys", all(keys.derives_from(c[1], kv[0]) or keys.derives_from(c[1], kv[1])
                                                       for c in Tv.ctx.consumed
                                                       if c[0] == "bits" and not (nested_seed_ok and keys.has_const_key(c[1]))))


def subst(arr, a, b):
    arr = sj.obj(arr)
    out = np.empty(arr.shape, dtype=object)
    for idx in np.ndindex(arr.shape):
        e = arr[idx]
        out[idx] = sj.LogV(z3.substitute(e.P, (a, b))) if isinstance(e, sj.LogV) else z3.substitute(e, (a, b))
    return out


def concrete_twin(g, rec, fn, args, kwargs, i):
    """an undecided equality is replayed concretely: run the real seeded function in both states"""
    from genjax import seed, pjax
    pjax.global_counter.count = 0
    k = jax.random.key(11)
    a = seed(lambda a_, kw: fn(*a_, **kw))(k, args, kwargs)
    perturb(i)
    b = seed(lambda a_, kw: fn(*a_, **kw))(k, args, kwargs)
    same = all(np.array_equal(np.asarray(x), np.asarray(y)) for x, y in zip(jax.tree_util.tree_leaves(a), jax.tree_util.tree_leaves(b)))
    if not same:
        rec["verdict"] = "violation"
        rec["detail"] = f"seeded results differ between process states (key 11): {jax.tree_util.tree_leaves(a)[:2]} vs {jax.tree_util.tree_leaves(b)[:2]}"
        rec["replay_kind"] = "structural"
