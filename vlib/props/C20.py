"""C20: the exact state-space baselines are exact (discrete HMM: forward filter / FFBS / sequence density / step model;
linear-Gaussian: Kalman filter / RTS smoother / step model)."""
from __future__ import annotations

import itertools

import numpy as np
import z3

import jax
import jax.numpy as jnp

from .. import symjax as sj, solve, gfi

FUNCTIONS = ["forward_filter", "backward_sample", "forward_filtering_backward_sampling", "compute_sequence_log_prob",
             "discrete_hmm (assess/simulate, iterated)", "kalman_filter", "kalman_smoother", "linear_gaussian (assess, iterated)",
             "jax.scipy.special.logsumexp", "jnp.linalg.inv (lu, triangular_solve)", "jax.scipy.stats.multivariate_normal.logpdf (cholesky)"]
BOUNDS = {
    "hmm": "K states x M symbols x T steps in {(2,2,1),(2,2,2),(2,3,2),(3,2,2),(2,2,3)} (thorough adds (3,3,2),(2,3,3) and, without FFBS, (3,2,3)); "
           "all stochastic matrices with positive entries, and (sparse groups) with entries >= 0 and p(y) > 0; ALL observation "
           "sequences (symbolic indices in range) and ALL sampled state sequences",
    "kalman": "kalman_filter (d_state, d_obs, T) in {(1,1,1),(1,1,2),(1,1,3),(2,1,1),(2,1,2),(1,2,1)} (thorough adds (1,1,4)); kalman_smoother "
              "{(1,1,1),(1,1,2),(1,1,3),(2,1,1),(1,2,1)}; step model (1,1),(2,1),(1,2), iterated (1,1) x 2 steps; "
              "all real model matrices, all symmetric positive-definite covariances (parametrised by their Cholesky factor), all observation values. "
              "thorough also: smoother (2,1,2) on the sub-family with an upper-triangular (non-symmetric) A and diagonal S0, Q (affine + unbiased means at every step, slope and covariance identities at the last). "
              "NOT covered (normal forms / path enumeration exceed the budget): d_obs = 2 with T >= 2, d_state = d_obs = 2, the general smoother with d_state = 2 and T >= 2",
}
ASSUMPTIONS = [
    "HMM: log-domain mode (Log a + Log b = Log ab; logsumexp's max shift cancelled by an identity rewrite whose side condition, a provably non-zero shift, is discharged by z3)",
    "HMM: matrices are stochastic (rows sum to 1); the sparse groups allow zero entries and assume the observed sequence has positive probability",
    "Kalman: covariances symmetric positive definite (principal minors > 0); Sqrt(a) is the non-negative root; floats as reals",
    "Kalman oracle = conditioning the joint Gaussian of (x_1..x_T, y_1..y_T), characterised without matrix inversion in the reference: "
    "the filtered/smoothed mean is affine in y with E-residual 0 and residual uncorrelated with the conditioning observations "
    "(B S_yy = S_xy), covariance = S_xx - B S_yx; log marginal: quadratic part L S_yy L = L with constant part prod(innovation determinants) = det S_yy",
]
EXPLANATION = ("the real state_space functions are traced to Jaxpr and encoded; oracles are brute-force sums over all state sequences "
               "(HMM) and the dense joint Gaussian built directly from the model equations (linear-Gaussian)")


def groups(tier, seed):
    hm = [(2, 2, 1), (2, 2, 2), (2, 3, 2), (3, 2, 2), (2, 2, 3)]
    if tier == "thorough":
        hm += [(3, 3, 2), (2, 3, 3)]
    gs = []
    for k, m, t in hm:
        gs += [f"ff:{k}:{m}:{t}", f"ffbs:{k}:{m}:{t}", f"seq:{k}:{m}:{t}"]
    if tier == "thorough":
        gs += ["ff:3:2:3", "seq:3:2:3"]          # (FFBS for K=3, T=3 exceeds the budget: measured > 15 min)
    gs += ["ff0:2:2:2", "ffbs0:2:2:2"] + (["ff0:2:3:2"] if tier == "thorough" else [])
    gs += ["step:2:2", "step:3:2", "step:2:3", "iter:2:2:2", "iter:2:2:3"]
    kf = [(1, 1, 1), (1, 1, 2), (1, 1, 3), (2, 1, 1), (2, 1, 2), (1, 2, 1)]
    ks = [(1, 1, 1), (1, 1, 2), (1, 1, 3), (2, 1, 1), (1, 2, 1)]
    if tier == "thorough":
        kf += [(1, 1, 4)]          # (2,1,3) and the smoother at T = 4 exceed the budget (measured > 15 min)
        gs += ["ksr:2:1:2"]        # smoother, d_state = 2 with a non-symmetric A (structured sub-family), ~6 min
    gs += [f"kf:{a}:{b}:{c}" for a, b, c in kf] + [f"ks:{a}:{b}:{c}" for a, b, c in ks]
    gs += ["lgstep:1:1", "lgstep:2:1", "lgstep:1:2", "lgiter:1:1:2"]
    return gs


def run_group(g, gid):
    parts = gid.split(":")
    kind, nums = parts[0], [int(x) for x in parts[1:]]
    g.programs.add(gid)
    if kind in ("ff", "ff0"):
        return forward(g, *nums, sparse=(kind == "ff0"))
    if kind in ("ffbs", "ffbs0"):
        return ffbs(g, *nums, sparse=(kind == "ffbs0"))
    if kind == "seq":
        return seqprob(g, *nums)
    if kind == "step":
        return hmm_step(g, *nums)
    if kind == "iter":
        return hmm_iter(g, *nums)
    from . import C20_kalman as kal
    if kind == "kf":
        return kal.kalman(g, *nums, smoother=False)
    if kind == "ks":
        return kal.kalman(g, *nums, smoother=True)
    if kind == "ksr":
        return kal.kalman(g, *nums, smoother=True, structured=True)
    if kind == "kfr":
        return kal.kalman(g, *nums, smoother=False, structured=True)
    if kind == "lgstep":
        return kal.lg_step(g, *nums)
    if kind == "lgiter":
        return kal.lg_iter(g, *nums)
    raise ValueError(gid)


# ----------------------------------------------------------------------------------------- HMM
class HMM:
    """symbolic HMM parameters and the brute-force oracle (written directly over the z3 variables)"""

    def __init__(self, K, M, T, sparse=False, stochastic=True):
        self.K, self.M, self.T = K, M, T
        self.pi = sj.fresh_like((K,), np.float32, "pi")
        self.A = sj.fresh_like((K, K), np.float32, "A")
        self.E = sj.fresh_like((K, M), np.float32, "E")
        self.ys = sj.fresh_like((T,), np.int32, "y")
        allp = sj.terms(self.pi) + sj.terms(self.A) + sj.terms(self.E)
        self.cons = [(t >= 0) if sparse else (t > 0) for t in allp]
        self.cons += [z3.And(y >= 0, y < M) for y in sj.terms(self.ys)]
        self.elim = []
        if stochastic:
            self.cons.append(sum(self.pi) == 1)
            self.cons += [sum(self.A[i]) == 1 for i in range(K)]
            self.cons += [sum(self.E[i]) == 1 for i in range(K)]
            # rows sum to one: the last entry of every row is determined by the others
            for row in [self.pi] + [self.A[i] for i in range(K)] + [self.E[i] for i in range(K)]:
                self.elim.append((row[len(row) - 1], 1 - sum(row[:len(row) - 1]) if len(row) > 1 else z3.RealVal(1)))
        self.ysplit = {y: range(M) for y in sj.terms(self.ys)}

    def example(self):
        K, M, T = self.K, self.M, self.T
        return (jnp.zeros(T, jnp.int32), jnp.ones(K) / K, jnp.ones((K, K)) / K, jnp.ones((K, M)) / M)

    def sym(self):
        return [self.ys, self.pi, self.A, self.E]

    @staticmethod
    def sel(row, i):
        """row[i] for a symbolic in-range index i"""
        if isinstance(i, int):
            return row[i]
        r = row[len(row) - 1]
        for k in range(len(row) - 2, -1, -1):
            r = z3.If(i == k, row[k], r)
        return r

    def emit(self, k, t, ys=None):
        ys = self.ys if ys is None else ys
        return self.sel(self.E[k], ys[t])

    def joint(self, xs, upto=None, ys=None):
        """p(x_0..x_n, y_0..y_n) for a CONCRETE state tuple xs"""
        p = self.pi[xs[0]] * self.emit(xs[0], 0, ys)
        for t in range(1, len(xs)):
            p = p * self.A[xs[t - 1], xs[t]] * self.emit(xs[t], t, ys)
        return p

    def marginal(self, n):
        """p(y_0..y_{n-1}) by brute force"""
        return sum(self.joint(xs) for xs in itertools.product(range(self.K), repeat=n))

    def joint_sym(self, states, ys=None):
        """p(states, y) for SYMBOLIC in-range state indices: sum over concrete sequences of [states == xs] * joint(xs)"""
        tot = 0
        for xs in itertools.product(range(self.K), repeat=len(states)):
            ind = z3.And(*[s == x for s, x in zip(states, xs)])
            tot = tot + z3.If(ind, self.joint(xs, ys=ys), 0)
        return tot


def _P(x):
    x = x.item() if isinstance(x, np.ndarray) else x
    return x.P if isinstance(x, sj.LogV) else sj.s_exp(x)


def forward(g, K, M, T, sparse=False):
    from genjax.extras.state_space import forward_filter, discrete_hmm_exact_log_marginal
    h = HMM(K, M, T, sparse)
    tag = f"K={K} M={M} T={T}{' sparse' if sparse else ''}"
    Tr = g.try_trace(f"{tag}: forward_filter traces", lambda *a: (forward_filter(*a), discrete_hmm_exact_log_marginal(*a)),
                     *h.example(), sym_in=h.sym(), logmode=True)
    if Tr is None:
        return
    (alpha, lml), lml2 = Tr.outs
    g.assume(*h.cons)
    tot = h.marginal(T)
    if sparse:
        g.assume(tot > 0)
    g.ok(f"{tag}: alpha has shape (T, K)", sj.obj(alpha).shape == (T, K))
    R = dict(split=h.ysplit, subst=h.elim)
    g.rat_eq(f"{tag}: log_marginal == log of the brute-force sum over all K^T state sequences", _P(lml), tot, **R)
    g.rat_eq(f"{tag}: discrete_hmm_exact_log_marginal == the same", _P(lml2), tot, **R)
    for t in range(T):
        den = h.marginal(t + 1)
        for k in range(K):
            num = sum(h.joint(xs) for xs in itertools.product(range(K), repeat=t + 1) if xs[-1] == k)
            g.rat_eq(f"{tag}: alpha[{t},{k}] == p(x_{t} = {k} | y_0..y_{t}) by brute force", _P(alpha[t, k]) * den, num, **R)
    if T > 1 and K > 1:
        def jt(xs):
            p = h.pi[xs[0]] * h.emit(xs[0], 0)
            for t in range(1, T):
                p = p * h.A[xs[t], xs[t - 1]] * h.emit(xs[t], t)
            return p
        g.fault_twin("marginal-with-transposed-transition", _P(lml) == sum(jt(xs) for xs in itertools.product(range(K), repeat=T)))


def ffbs(g, K, M, T, sparse=False):
    """exact outcome distribution of backward sampling: for every outcome vector, the product of the site probabilities
    equals the posterior probability p(x_{0:T-1} | y) of the returned state sequence"""
    from genjax.extras.state_space import forward_filtering_backward_sampling
    h = HMM(K, M, T, sparse)
    tag = f"K={K} M={M} T={T}{' sparse' if sparse else ''}"
    Tr = g.try_trace(f"{tag}: forward_filtering_backward_sampling traces", forward_filtering_backward_sampling,
                     *h.example(), sym_in=h.sym(), logmode=True)
    if Tr is None:
        return
    out = Tr.outs
    g.assume(*h.cons)
    tot = h.marginal(T)
    if sparse:
        g.assume(tot > 0)
    sites = Tr.sites
    g.ok(f"{tag}: one categorical site per time step", len(sites) == T and all((s.name or "").lower() == "categorical" for s in sites),
         str([(s.name, s.sample_shape) for s in sites]))
    if len(sites) != T:
        return
    outs = [sj.obj(s.outs[0]).item() for s in sites]
    rng = [z3.And(o >= 0, o < K) for o in outs]
    g.assume(*rng)
    states = [sj.unlog(e) for e in sj.obj(out.states)]
    names = sorted(str(s) for s in states)
    okst = all(z3.is_const(s) for s in states) and names == sorted(str(o) for o in outs)
    g.ok(f"{tag}: the returned states are the T site outcomes, each used once", okst, str(states))
    if not okst:
        return
    g.eq(f"{tag}: the trace records the observations it was given", out.observations, h.ys)
    # which site produced the state of which time step
    site_of_time = {}
    for t, st in enumerate(states):
        for s in sites:
            if st.eq(sj.obj(s.outs[0]).item()):
                site_of_time[t] = s

    def site_probs(s):
        args, kw = gfi._site_args(s)
        logits = sj.obj(kw["logits"] if "logits" in kw else args[0])
        return [_P(l) for l in logits]

    def num(t, k):          # p(x_t = k, y_0..y_t) by brute force
        return sum(h.joint(xs) for xs in itertools.product(range(K), repeat=t + 1) if xs[-1] == k)
    R = dict(split=h.ysplit, subst=h.elim)
    # (1) each site has the exact conditional law of the backward factorisation
    #     p(x_{T-1} | y) and p(x_t | x_{t+1}, y_0..y_t) = num(t, k) A[k, x_{t+1}] / sum_k' num(t, k') A[k', x_{t+1}]
    for t in range(T - 1, -1, -1):
        Ps = site_probs(site_of_time[t])
        Z = sum(Ps)
        for k in range(K):
            if t == T - 1:
                g.rat_eq(f"{tag}: final state site: P(x_{t} = {k}) == p(x_{t} = {k} | y) by brute force", Ps[k] * tot, num(t, k) * Z, **R)
            else:
                nxt = states[t + 1]
                w = [num(t, kk) * HMM.sel([h.A[kk, n] for n in range(K)], nxt) for kk in range(K)]
                g.rat_eq(f"{tag}: site of x_{t}: P(x_{t} = {k} | x_{t + 1}) == p(x_{t} = {k} | x_{t + 1}, y_0..y_{t}) by brute force (all next states)",
                         Ps[k] * sum(w), w[k] * Z, split={**h.ysplit, nxt: range(K)}, subst=h.elim)
    # (2) lemma (no code involved): the backward factorisation multiplies up to the posterior of the whole sequence,
    #     for every concrete sequence with positive probability: prod_t p(x_t | x_{t+1}, y_0..y_t) * p(x_{T-1} | y) == p(x | y)
    lem = []
    for xs in itertools.product(range(K), repeat=T):
        lhs_num, lhs_den = num(T - 1, xs[T - 1]), tot
        for t in range(T - 1):
            lhs_num = lhs_num * (num(t, xs[t]) * h.A[xs[t], xs[t + 1]])
            lhs_den = lhs_den * sum(num(t, kk) * h.A[kk, xs[t + 1]] for kk in range(K))
        lem.append((lhs_num * tot, h.joint(xs) * lhs_den))
    g.rat_eq(f"{tag}: lemma: the backward factorisation equals the joint posterior p(x_0..x_{T - 1} | y) (all {K ** T} sequences)",
             [a for a, _ in lem], [b for _, b in lem], **R)
    post_num = h.joint_sym(states)
    g.rat_eq(f"{tag}: log_prob of the returned trace == log p(states, observations)", _P(out.log_prob), post_num,
             split={**h.ysplit, **{st: range(K) for st in states}}, subst=h.elim)
    if T > 1 and K > 1:
        t = T - 2
        Ps = site_probs(site_of_time[t])
        nxt = states[t + 1]
        w = [num(t, kk) * HMM.sel([h.A[n, kk] for n in range(K)], nxt) for kk in range(K)]     # transposed transition
        g.fault_twin("backward-step-with-transposed-transition", z3.And(*[Ps[k] * sum(w) == w[k] * sum(Ps) for k in range(K)]))


def seqprob(g, K, M, T):
    from genjax.extras.state_space import compute_sequence_log_prob
    h = HMM(K, M, T)
    xs = sj.fresh_like((T,), np.int32, "x")
    tag = f"K={K} M={M} T={T}"
    ex = h.example()
    Tr = g.try_trace(f"{tag}: compute_sequence_log_prob traces", compute_sequence_log_prob, jnp.zeros(T, jnp.int32), *ex,
                     sym_in=[xs] + h.sym(), logmode=True)
    if Tr is None:
        return
    g.assume(*h.cons)
    g.assume(*[z3.And(x >= 0, x < K) for x in sj.terms(xs)])
    g.rat_eq(f"{tag}: compute_sequence_log_prob == log p(states, observations) for all sequences",
             _P(Tr.outs), h.joint_sym(list(sj.terms(xs))), split={**h.ysplit, **{x: range(K) for x in sj.terms(xs)}}, subst=h.elim)


def hmm_step(g, K, M):
    """the discrete_hmm step model: density of one step and the laws of its two sites"""
    from genjax.extras.state_space import discrete_hmm
    h = HMM(K, M, 1)
    prev = z3.Int("prev")
    tix = z3.Int("tix")
    s, o = z3.Int("s"), z3.Int("o")
    tag = f"K={K} M={M}"
    ex = (jnp.int32(0), jnp.int32(0), jnp.ones(K) / K, jnp.ones((K, K)) / K, jnp.ones((K, M)) / M)

    def f(s_, o_, prev_, t_, pi, A, E):
        d, r = discrete_hmm.assess({"state": s_, "obs": o_}, prev_, t_, pi, A, E)
        return d, r
    Tr = g.try_trace(f"{tag}: discrete_hmm.assess traces", f, jnp.int32(0), jnp.int32(0), *ex,
                     sym_in=[sj.obj(s), sj.obj(o), sj.obj(prev), sj.obj(tix), h.pi, h.A, h.E], logmode=True)
    if Tr is None:
        return
    g.assume(*[c for c in h.cons if "y" not in str(c)[:3]])
    g.assume(prev >= 0, prev < K, tix >= 0, s >= 0, s < K, o >= 0, o < M)
    d, r = Tr.outs
    rowp = [HMM.sel([h.A[i, k] for i in range(K)], prev) for k in range(K)]      # A[prev, k]
    trans = HMM.sel(rowp, s)
    init = HMM.sel(list(h.pi), s)
    em = HMM.sel([HMM.sel(list(h.E[k]), o) for k in range(K)], s)
    for t0 in (True, False):
        g.rat_eq(f"{tag}: step density == {'pi[s]' if t0 else 'A[prev, s]'} * E[s, o] when t {'==' if t0 else '>'} 0",
                 _P(d), (init if t0 else trans) * em,
                 split={s: range(K), o: range(M), prev: range(K)}, subst=h.elim, assumptions=[(tix == 0) if t0 else (tix > 0)])
    g.eq(f"{tag}: step returns (state, t + 1, parameters unchanged)", r,
         (sj.obj(s), sj.obj(tix + 1), h.pi, h.A, h.E))
    # simulate: laws of the two sites
    Ts = g.try_trace(f"{tag}: discrete_hmm.simulate traces", lambda *a: discrete_hmm.simulate(*a).get_choices(), *ex,
                     sym_in=[sj.obj(prev), sj.obj(tix), h.pi, h.A, h.E], logmode=True)
    if Ts is None:
        return
    ch = Ts.outs
    sites = Ts.sites
    g.ok(f"{tag}: simulate has a state site and an obs site, both categorical", len(sites) == 2 and all((x.name or "").lower() == "categorical" for x in sites))
    if len(sites) != 2:
        return
    st_var = sj.obj(sites[0].outs[0]).item()
    g.assume(st_var >= 0, st_var < K)
    g.ok(f"{tag}: choices are the two site outcomes", sj.unlog(sj.obj(ch["state"]).item()).eq(st_var)
         and sj.unlog(sj.obj(ch["obs"]).item()).eq(sj.obj(sites[1].outs[0]).item()))
    a0, kw0 = gfi._site_args(sites[0])
    l0 = [_P(x) for x in sj.obj(kw0["logits"] if "logits" in kw0 else a0[0])]
    g.holds(f"{tag}: state ~ categorical(t == 0 ? pi : A[prev])",
            z3.And(*[l0[k] == z3.If(tix == 0, h.pi[k], rowp[k]) * sum(l0) for k in range(K)]))
    a1, kw1 = gfi._site_args(sites[1])
    l1 = [_P(x) for x in sj.obj(kw1["logits"] if "logits" in kw1 else a1[0])]
    g.holds(f"{tag}: obs ~ categorical(E[state])",
            z3.And(*[l1[m] == HMM.sel([h.E[k, m] for k in range(K)], st_var) * sum(l1) for m in range(M)]))


def hmm_iter(g, K, M, T):
    """the step model iterated over time (carrying its own return value) defines the HMM joint density"""
    from genjax.extras.state_space import discrete_hmm
    h = HMM(K, M, T)
    xs = sj.fresh_like((T,), np.int32, "x")
    tag = f"K={K} M={M} T={T}"

    def f(xs_, ys_, pi, A, E):
        carry = (jnp.int32(0), jnp.int32(0), pi, A, E)
        total = 0.0
        for t in range(T):
            d, carry = discrete_hmm.assess({"state": xs_[t], "obs": ys_[t]}, *carry)
            total = total + d
        return total, carry[1]
    ex = h.example()
    Tr = g.try_trace(f"{tag}: iterated discrete_hmm.assess traces", f, jnp.zeros(T, jnp.int32), *ex, sym_in=[xs] + h.sym(), logmode=True)
    if Tr is None:
        return
    g.assume(*h.cons)
    g.assume(*[z3.And(x >= 0, x < K) for x in sj.terms(xs)])
    tot, tix = Tr.outs
    g.rat_eq(f"{tag}: sum of step densities == log p(states, observations)", _P(tot), h.joint_sym(list(sj.terms(xs))),
             split={**h.ysplit, **{x: range(K) for x in sj.terms(xs)}}, subst=h.elim)
    g.eq(f"{tag}: time index after T steps == T", tix, sj.obj(sj.IV(T)))
