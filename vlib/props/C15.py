"""C15: on deterministic code ADEV is ordinary forward-mode AD, for any argument shape."""
from __future__ import annotations

import numpy as np
import z3

import jax
import jax.numpy as jnp

from .. import symjax as sj, solve

FUNCTIONS = ["ADEV.eval_jaxpr_adev (default path, cond case)", "_canonicalize_tangent_for_primitive_jvp / zero-tangent helpers", "Dual tree helpers",
             "ADEV.forward_mode", "Expectation.jvp_estimate / grad_estimate / estimate", "invoke_closed_over(_jvp)"]
BOUNDS = {"programs": "35 deterministic JAX programs (also custom_jvp functions, a three-way switch, a multi-output primitive, loops with integer counters, inner jit / checkpoint / vmap): arithmetic, transcendental (shared uninterpreted functions), indexing/slicing, reductions, dot/matmul/transpose, integer and boolean intermediates, dtype conversions, where, cond with either branch; scalar, array (sizes <= 3) and pytree arguments",
          "values": "all inputs and all tangents"}
ASSUMPTIONS = ["sin/exp/log/... are shared uninterpreted functions: equality is proved up to the identity of the primitive applications"]
EXPLANATION = "expectation(f).jvp_estimate/grad_estimate/estimate traced and proved equal to jax.jvp / jax.grad / f for all inputs and tangents"

f32 = np.float32


def V(*x):
    return np.asarray(x, dtype=np.float32)


def programs():
    P = {}
    P["poly_scalar"] = (lambda x, y: x * x * y + 3.0 * y - x, (f32(0.5), f32(1.5)))
    P["transcendental"] = (lambda x: jnp.sin(x) * jnp.exp(x) + jnp.log(x * x + 1.0), (f32(0.5),))
    P["vector_sum"] = (lambda x, y: jnp.sum(x * y) + jnp.sum(x) * 2.0, (V(0.1, 0.2, 0.3), V(1.0, 2.0, 3.0)))
    P["dot"] = (lambda x, y: jnp.dot(x, y) * jnp.dot(x, x), (V(0.1, 0.2), V(1.0, 2.0)))
    P["matmul_transpose"] = (lambda a, x: jnp.sum((a @ a.T) @ x), (np.asarray([[1.0, 2.0], [0.5, -1.0]], dtype=np.float32), V(0.3, 0.7)))
    P["slicing"] = (lambda x: jnp.sum(x[1:] * x[:-1]) + x[0] * x[-1], (V(0.1, 0.2, 0.3),))
    P["indexing_gather"] = (lambda x: x[jnp.array([2, 0, 0])] @ x, (V(0.1, 0.2, 0.3),))
    P["reduce_max"] = (lambda x: jnp.max(x) * jnp.sum(x), (V(0.1, 0.4, 0.3),))
    P["integer_intermediate"] = (lambda x: jnp.sum(x * jnp.arange(3)) + jnp.sum(x) * jnp.int32(2), (V(0.1, 0.2, 0.3),))
    P["boolean_where"] = (lambda x, y: jnp.where(x > y, x * x, y * 3.0) + jnp.where(x > 0.0, 1.0, -1.0) * y, (f32(0.5), f32(1.5)))
    P["dtype_conversion"] = (lambda x: x * (x > 0.25).astype(jnp.float32) + jnp.floor(x).astype(jnp.int32).astype(jnp.float32) * x, (f32(0.5),))
    P["cond_true_false"] = (lambda x, y: jax.lax.cond(x > y, lambda a, b: a * b, lambda a, b: a - b * b, x, y), (f32(0.5), f32(1.5)))
    P["cond_in_vector"] = (lambda x: jax.lax.cond(jnp.sum(x) > 0.0, lambda v: jnp.sum(v * v), lambda v: jnp.sum(v) * 3.0, x), (V(0.1, -0.2),))
    P["logsumexp"] = (lambda x: jax.scipy.special.logsumexp(x), (V(0.1, 0.2),))
    P["pytree_dict"] = (lambda d: d["a"] * jnp.sum(d["b"]) + d["a"], ({"a": f32(0.5), "b": V(1.0, 2.0)},))
    P["pytree_tuple"] = (lambda t, s: t[0] * t[1][0] + s * t[1][1], ((f32(0.5), (f32(1.0), f32(2.0))), f32(0.3)))
    P["matrix_function"] = (lambda a: jnp.sum(a.T @ a) + jnp.trace(a), (np.asarray([[1.0, 2.0], [0.5, -1.0]], dtype=np.float32),))
    P["stack_concat"] = (lambda x, y: jnp.sum(jnp.concatenate([x, y * 2.0]) * jnp.stack([x, y]).reshape(-1)), (V(0.1, 0.2), V(1.0, 2.0)))
    P["division_sqrt"] = (lambda x, y: x / (y * y + 1.0) + jnp.sqrt(x * x + 1.0), (f32(0.5), f32(1.5)))
    P["cumsum_prod"] = (lambda x: jnp.sum(jnp.cumsum(x) * x) + jnp.prod(x), (V(0.1, 0.2, 0.3),))
    P["vector_output_sum"] = (lambda x, m: jnp.sum(jnp.tanh(m @ x)), (V(0.1, 0.2), np.asarray([[1.0, 2.0], [0.5, -1.0]], dtype=np.float32)))
    P["select_dynamic_index"] = (lambda x: x[jnp.argmax(x)] * jnp.sum(x), (V(0.1, 0.4, 0.3),))
    # custom_jvp functions, multi-way switch, multi-output primitives, loops with integer counters, nested transformations
    P["custom_jvp_relu"] = (lambda x: jnp.sum(jax.nn.relu(x) * x), (V(0.5, -0.2),))
    P["switch_three_way"] = (lambda x: jax.lax.switch(jnp.int32(x > 0.0) + jnp.int32(x > 1.0), [lambda v: v * 2.0, lambda v: v * v, lambda v: jnp.sin(v)], x), (f32(0.5),))
    P["top_k_multi_output"] = (lambda x: jnp.sum(jax.lax.top_k(x, 2)[0] * V(1.0, 3.0)), (V(0.5, -0.2, 0.9),))
    P["scan_int_counter"] = (lambda x: jax.lax.scan(lambda c, _: ((c[0] * x, c[1] + 1), c[0]), (x, 0), None, length=3)[0][0], (f32(0.5),))
    P["fori_loop_static"] = (lambda x: jax.lax.fori_loop(0, 3, lambda i, c: c * x + i, x), (f32(0.5),))
    P["sort_weights"] = (lambda x: jnp.sum(jnp.sort(x) * jnp.arange(3)), (V(0.5, -0.2, 0.9),))
    P["clip"] = (lambda x: jnp.sum(jnp.clip(x, -0.1, 0.3) * x), (V(0.5, -0.2, 0.2),))
    P["inner_jit"] = (lambda x: jax.jit(lambda v: v * v + 1.0)(x) * x, (f32(0.5),))
    P["inner_checkpoint"] = (lambda x: jax.checkpoint(lambda v: jnp.sin(v) * v)(x), (f32(0.5),))
    P["inner_vmap"] = (lambda x: jnp.sum(jax.vmap(lambda v: v * v * 2.0)(x)), (V(0.5, -0.2),))
    P["softmax"] = (lambda x: jnp.sum(jax.nn.softmax(x) * x), (V(0.5, -0.2),))
    return P


def xv_programs():
    """programs evaluated in the extended-real (NaN / +-inf aware) mode: a branch or mask guards a function that is
    singular on the other side; jax.jvp / jax.grad never evaluate (or zero out) the untaken side, so must ADEV"""
    P = {}
    P["guarded_sqrt"] = (lambda x: jax.lax.cond(x > 0, lambda: jnp.sqrt(x) * x, lambda: x ** 2), (f32(0.5),))
    P["guarded_log_then"] = (lambda x: jax.lax.cond(x > 0, lambda: jnp.log(x), lambda: -x) * 2.0 + x, (f32(0.5),))
    P["guarded_division"] = (lambda x, y: jax.lax.cond(y != 0, lambda: x / y, lambda: x * 3.0) + y, (f32(0.5), f32(1.5)))
    P["integer_derived_zero"] = (lambda x: jnp.sum(x) * (1.0 + jnp.sqrt(jnp.sum(x > 5.0).astype(jnp.float32))), (V(0.3, -1.2, 2.0),))
    P["cond_on_data_three_ops"] = (lambda x: jax.lax.cond(x * x > 1.0, lambda: 1.0 / (x * x - 1.0), lambda: jnp.sqrt(1.0 - x * x)), (f32(0.5),))
    return P


def groups(tier, seed):
    return [f"prog:{k}" for k in programs()] + [f"xv:{k}" for k in xv_programs()]


def run_group(g, gid):
    from genjax.adev import expectation, Dual
    kind, _, name = gid.partition(":")
    if kind == "xv":
        return run_xv(g, name)
    f, args = programs()[name]
    g.programs.add(name)
    E = expectation(f)
    tangents = jax.tree_util.tree_map(lambda a: np.ones_like(a), args)
    import inspect
    try:
        g.sample(program=inspect.getsource(programs).split(f'P["{name}"]')[1].split("\n")[0][:300])
    except Exception:
        pass

    def adev_jvp(args, tangents):
        d = E.jvp_estimate(*Dual.dual_tree(args, tangents))
        return d.primal, d.tangent
    Tj = g.try_trace(f"{name}: jvp_estimate traces", adev_jvp, args, tangents)
    if Tj is not None:
        Rj = sj.sym_trace(lambda a, t: jax.jvp(f, a, t), args, tangents, sym_in=Tj.flat_in)
        g.eq(f"{name}: jvp_estimate primal == jax.jvp primal", Tj.outs[0], Rj.outs[0])
        g.eq(f"{name}: jvp_estimate tangent == jax.jvp tangent (all inputs, all tangents)", Tj.outs[1], Rj.outs[1])
        g.ok(f"{name}: same shapes and dtypes as jax.jvp", [(tuple(a.shape), a.dtype) for a in Tj.closed.out_avals] ==
             [(tuple(a.shape), a.dtype) for a in Rj.closed.out_avals])
        if len(sj.terms(Tj.outs[1])) and not z3.is_true(z3.simplify(solve.eq_trees(Tj.outs[1], jax.tree_util.tree_map(lambda x: sj.ew(lambda t: sj.RV(0))(None, None, x), Tj.outs[1], is_leaf=lambda t: isinstance(t, np.ndarray))))):
            g.fault_twin("tangent-is-zero", solve.eq_trees(Tj.outs[1], jax.tree_util.tree_map(
                lambda x: sj.ew(lambda t: sj.RV(0))(None, None, x), Tj.outs[1], is_leaf=lambda t: isinstance(t, np.ndarray))))
    Tg = g.try_trace(f"{name}: grad_estimate traces", lambda a: E.grad_estimate(*a), args)
    if Tg is not None:
        Rg = sj.sym_trace(lambda a: jax.grad(lambda *xs: f(*xs), argnums=tuple(range(len(a))))(*a), args, sym_in=Tg.flat_in)
        ref = Rg.outs if len(args) > 1 else Rg.outs[0]
        g.eq(f"{name}: grad_estimate == jax.grad", Tg.outs, ref)
    Te = g.try_trace(f"{name}: estimate traces (arguments of any shape)", lambda a: E.estimate(*a), args)
    if Te is not None:
        Re = sj.sym_trace(lambda a: f(*a), args, sym_in=Te.flat_in)
        g.eq(f"{name}: estimate == f(args)", Te.outs, Re.outs)


def run_xv(g, name):
    """the same three identities with every float an extended real (NaN, +inf, -inf or finite): inputs and tangents are
    arbitrary FINITE reals, intermediate values may be non-finite, and NaN == NaN for the purpose of the comparison"""
    from genjax.adev import expectation, Dual
    f, args = xv_programs()[name]
    g.programs.add("xv:" + name)
    E = expectation(f)
    tangents = jax.tree_util.tree_map(lambda a: np.ones_like(a), args)

    def xv_in(T):
        return [sj.ew(lambda t: sj.XV.fin(t))(None, None, a) for a in T.flat_in]

    def adev_jvp(args, tangents):
        d = E.jvp_estimate(*Dual.dual_tree(args, tangents))
        return d.primal, d.tangent
    pre = g.try_trace(f"{name} [NaN/inf aware]: jvp_estimate traces", adev_jvp, args, tangents)
    if pre is not None:
        g.traces.remove(pre)
        xin = xv_in(pre)
        Tj = g.trace(adev_jvp, args, tangents, sym_in=xin)
        Rj = sj.sym_trace(lambda a, t: jax.jvp(f, a, t), args, tangents, sym_in=xin)
        g.eq(f"{name} [NaN/inf aware]: jvp_estimate primal == jax.jvp primal", Tj.outs[0], Rj.outs[0])
        g.eq(f"{name} [NaN/inf aware]: jvp_estimate tangent == jax.jvp tangent", Tj.outs[1], Rj.outs[1])
    pre = g.try_trace(f"{name} [NaN/inf aware]: grad_estimate traces", lambda a: E.grad_estimate(*a), args)
    if pre is not None:
        g.traces.remove(pre)
        xin = xv_in(pre)
        Tg = g.trace(lambda a: E.grad_estimate(*a), args, sym_in=xin)
        Rg = sj.sym_trace(lambda a: jax.grad(lambda *xs: f(*xs), argnums=tuple(range(len(a))))(*a), args, sym_in=xin)
        ref = Rg.outs if len(args) > 1 else Rg.outs[0]
        g.eq(f"{name} [NaN/inf aware]: grad_estimate == jax.grad (the untaken branch contributes nothing, not even NaN)", Tg.outs, ref)
    pre = g.try_trace(f"{name} [NaN/inf aware]: estimate traces", lambda a: E.estimate(*a), args)
    if pre is not None:
        g.traces.remove(pre)
        xin = xv_in(pre)
        Te = g.trace(lambda a: E.estimate(*a), args, sym_in=xin)
        Re = sj.sym_trace(lambda a: f(*a), args, sym_in=xin)
        g.eq(f"{name} [NaN/inf aware]: estimate == f(args)", Te.outs, Re.outs)
