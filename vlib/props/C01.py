"""C01: assess is the joint log density; simulate samples exactly from it."""
from __future__ import annotations

import numpy as np
import z3

import jax
import jax.numpy as jnp

from .. import symjax as sj, refsem as rs, corpus, gfi, solve

FUNCTIONS = ["Distribution.simulate/assess", "Simulate/Assess handlers", "Fn.simulate/assess", "Vmap.simulate/assess",
             "Scan.simulate/assess", "Cond.simulate/assess", "Tr/ScanTr/CondTr.get_score/get_retval/get_choices",
             "GFI.log_density", "modular_vmap", "pjax.log_density (opened)", "seed"]
BOUNDS = {"programs": "fixed corpus vlib/corpus.py (quick: 14, thorough: 16 programs; every combinator, kwargs, vector sites)",
          "values": "all real/int/bool values of every argument, choice and random outcome",
          "shapes": "array sizes <= 3, scan length <= 3, vmap batch 2, nesting depth <= 2"}
ASSUMPTIONS = ["choice maps in the support, parameters valid (rctx.support)"]
EXPLANATION = ("assess/simulate of the real code are traced to Jaxpr and encoded; the oracle is the reference "
               "denotational semantics (vlib/refsem.py) using TFP log_prob called directly")


def groups(tier, seed):
    gs = []
    for c in corpus.cases(tier):
        gs += [f"assess:{c.name}", f"simulate:{c.name}"]
    gs += ["collision", "seeded:two_normals", "seeded:scanned", "seeded:vmapped", "jit:nested", "mvmap:two_normals"]
    return gs


def _sym_kwargs(kwargs):
    return kwargs


def run_group(g, gid):
    kind, _, name = gid.partition(":")
    if kind == "collision":
        return collision(g)
    case = corpus.get(name)
    gf = rs.to_genjax(case.prog)
    g.programs.add(case.name)
    g.sample(program=rs.source(case.prog), group=gid)
    if kind == "assess":
        assess(g, case, gf)
    elif kind == "simulate":
        simulate(g, case, gf)
    elif kind == "seeded":
        simulate(g, case, gf, mode="seed")
    elif kind == "jit":
        simulate(g, case, gf, mode="jit")
    elif kind == "mvmap":
        mvmap(g, case, gf)


def assess(g, case, gf):
    cm = gfi.example_choices(gf, case.args, case.kwargs)

    def f(cm, args, kwargs):
        d, r = gf.assess(cm, *args, **kwargs)
        return d, r, gf.log_density(cm, *args, **kwargs)
    T = g.try_trace("assess traces", f, cm, tuple(case.args), case.kwargs)
    if T is None:
        return
    cm_s, args_s, kw_s = T.ins
    rctx = rs.RefCtx()
    ref = rs.ref_eval(case.prog, cm_s, list(args_s), kw_s, rctx)
    g.assume(*rctx.support)
    d, r, ld = T.outs
    logp = gfi.neg(ref.get_score())
    g.eq("assess density == sum of site log probabilities", d, logp)
    g.eq("assess retval == program return value", r, ref.get_retval())
    g.eq("log_density == density", ld, logp)
    nc = getattr(T.ctx, "nan_conds", [])
    if nc:
        g.holds("assess is NaN-free on choice maps in the support (no 0 * -inf from an untaken branch of zero density)",
                z3.Not(z3.Or(*nc)))
    # teeth: dropping one site's term from the reference must be refuted
    if rctx.sites:
        s0 = rctx.sites[0]
        lp0 = gfi.scalar_sum(s0.family.logpdf(s0.value, s0.params))
        g.fault_twin("drop-first-site", solve.eq_arrays(d, gfi.sub(logp, lp0)))


def simulate(g, case, gf, mode="plain"):
    if mode == "plain":
        def f(args, kwargs):
            tr = gf.simulate(*args, **kwargs)
            ch = tr.get_choices()
            d, r = gf.assess(ch, *args, **kwargs)
            return tr, ch, tr.get_score(), tr.get_retval(), d, r, tr.get_args()
        T = g.try_trace("simulate traces", f, tuple(case.args), case.kwargs)
    elif mode == "jit":
        def f(args, kwargs):
            from genjax import seed
            # jit requires seed; compare IR of jit(seed(simulate)) at a symbolic key
            tr = jax.jit(seed(lambda a, kw: gf.simulate(*a, **kw)))(jax.random.key(0), args, kwargs)
            ch = tr.get_choices()
            d, r = gf.assess(ch, *args, **kwargs)
            return tr, ch, tr.get_score(), tr.get_retval(), d, r, tr.get_args()
        T = g.try_trace("jit(seed(simulate)) traces", f, tuple(case.args), case.kwargs)
    else:
        def f(key, args, kwargs):
            from genjax import seed
            tr = seed(lambda a, kw: gf.simulate(*a, **kw))(key, args, kwargs)
            ch = tr.get_choices()
            d, r = gf.assess(ch, *args, **kwargs)
            return tr, ch, tr.get_score(), tr.get_retval(), d, r, tr.get_args()
        T = g.try_trace("seed(simulate) traces", f, jax.random.key(0), tuple(case.args), case.kwargs)
    if T is None:
        return
    if mode in ("seed", "jit"):
        T.no_validate = True   # key-typed inputs: validated by C06's harness instead
    tr, ch, score, retval, d, r, rec_args = T.outs
    args_s, kw_s = T.ins[-2], T.ins[-1]
    g.eq("score == -assess(choices)", score, gfi.neg(d))
    g.eq("retval == assess retval on the same choices", retval, r)
    # reference on the visible choices
    rctx = rs.RefCtx()
    ref = rs.ref_eval(case.prog, rs.state_of_canon(rs.canon_trace(tr)), list(args_s), kw_s, rctx)
    g.eq("score == -reference log density of the choices", score, ref.get_score())
    g.eq("choices == visible choices of the trace", ch, ref.get_choices())
    g.eq("retval == reference return value", retval, ref.get_retval())
    g.eq("simulate result is a coherent trace (every sub-trace: args, choices, retval, score)",
         rs.canon_trace(tr), ref.canon())
    if mode == "plain":
        gfi.site_law_obligations(g, T, rctx, "simulate", lambda p, rec: True)
    else:
        # seeded: no sample equation may survive
        g.ok("seed removes every sample site", len(T.sites) == 0, f"{len(T.sites)} residual sites")


def mvmap(g, case, gf):
    from genjax import modular_vmap
    n = 2
    bargs = tuple(np.stack([np.asarray(a)] * n) for a in case.args)

    def f(args):
        tr = modular_vmap(lambda *a: gf.simulate(*a), in_axes=0)(*args)
        return tr, tr.get_score()
    T = g.try_trace("modular_vmap(simulate) traces", f, bargs)
    if T is None:
        return
    tr, score = T.outs
    (args_s,) = T.ins
    c = rs.canon_trace(tr)
    total = sj.RV(0)
    for i in range(n):
        rctx = rs.RefCtx()
        ci = rs.index_tree(c, i)
        ref = rs.ref_eval(case.prog, rs.state_of_canon(ci), [sj.obj(a[i]) for a in args_s], {}, rctx)
        g.eq(f"lane {i} of modular_vmap(simulate) is a coherent trace", ci, ref.canon())


def collision(g):
    """a duplicated address must raise in every handler, for all values (raised while tracing)"""
    from genjax import gen, normal, sel
    @gen
    def dup(mu):
        x = normal(mu, 1.0) @ "x"
        y = normal(x, 1.0) @ "x"
        return y

    @gen
    def ok(mu):
        x = normal(mu, 1.0) @ "x"
        y = normal(x, 1.0) @ "y"
        return y

    tr = gfi.example_trace(ok, [np.float32(0.0)], {})
    # a trace with the duplicated structure cannot be built; reuse ok's trace for update/regenerate
    ops = {
        "simulate": lambda mu: dup.simulate(mu).get_score(),
        "assess": lambda mu: dup.assess({"x": 0.5}, mu)[0],
        "generate": lambda mu: dup.generate({"x": 0.5}, mu)[1],
        "update": lambda mu: dup.update(tr, {"x": 0.5}, mu)[1],
        "regenerate": lambda mu: dup.regenerate(tr, sel("x"), mu)[1],
    }
    from genjax import core
    for name, fn in ops.items():
        core.handler_stack.clear()
        try:
            jax.make_jaxpr(fn)(np.float32(0.0))
            g.ok(f"address collision raises in {name}", False, "no exception")
        except ValueError as e:
            g.ok(f"address collision raises in {name}", "collision" in str(e).lower(), str(e)[:80])
        except Exception as e:
            g.ok(f"address collision raises in {name}", False, f"{type(e).__name__}: {e}"[:200])
        finally:
            core.handler_stack.clear()
