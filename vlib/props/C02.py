"""C02: generate honours constraints and returns the proper importance weight."""
from __future__ import annotations

import numpy as np
import z3

import jax

from .. import symjax as sj, refsem as rs, corpus, gfi, solve

FUNCTIONS = ["Generate handler", "Distribution.generate", "Fn.generate", "Vmap.generate", "Scan.generate",
             "Cond.generate", "static_dim_length", "modular_vmap"]
BOUNDS = {"programs": "corpus (vlib/corpus.py)", "constraints": "every subset of the leaf addresses (<= 5 addresses, 2^k subsets), incl. empty (None) and all",
          "values": "all values of arguments, constrained values and random outcomes"}
ASSUMPTIONS = ["constraints in the support; E[exp w] = p(constraints) is the importance-sampling corollary of (weight identity and site laws)"]
EXPLANATION = "generate traced per constraint subset; weight, constrained values, site laws and coherence against the reference semantics"


def groups(tier, seed):
    return [f"generate:{c.name}" for c in corpus.cases(tier)] + ["expectation:flip2"]


def ref_weight(p, t, constrained, prefix=()):
    """sum of the log probabilities of the constrained sites of reference trace t"""
    return gfi.scalar_sum(_ref_weight_lanes(p, t, constrained, prefix, 0))


def _sum_trailing(a, nlane):
    """sum an object array over all axes after the first nlane (lane / step) axes"""
    a = sj.obj(a)
    if a.ndim <= nlane:
        return a
    out = np.empty(a.shape[:nlane], dtype=object)
    for idx in np.ndindex(*a.shape[:nlane]):
        out[idx] = gfi.scalar_sum(a[idx]).item()
    return out


def _ref_weight_lanes(p, t, constrained, prefix, nlane):
    """per-lane (leading vmap / scan axes kept) sums, so that a Cond inside a Vmap or Scan selects lane by lane"""
    if p.kind == "dist":
        if constrained(prefix):
            return gfi.neg(_sum_trailing(t.score, nlane))
        z = np.empty(sj.obj(t.score).shape[:nlane], dtype=object)
        z.fill(sj.RV(0))
        return z
    if p.kind == "fn":
        acc = None
        for st in p.body:
            if isinstance(st, rs.Sample):
                w = _ref_weight_lanes(st.callee, t.choices[st.addr], constrained, prefix + (st.addr,), nlane)
                acc = w if acc is None else gfi.add(acc, w)
        if acc is None:
            acc = np.empty(sj.obj(t.score).shape[:nlane], dtype=object)
            acc.fill(sj.RV(0))
        return acc
    if p.kind == "vmap":
        return _sum_trailing(_ref_weight_lanes(p.callee, t, constrained, prefix, nlane + 1), nlane)
    if p.kind == "scan":
        return _sum_trailing(_ref_weight_lanes(p.callee, t.traces, constrained, prefix, nlane + 1), nlane)
    if p.kind == "cond":
        return rs._where(t.check, _ref_weight_lanes(p.a, t.trs[0], constrained, prefix, nlane),
                         _ref_weight_lanes(p.b, t.trs[1], constrained, prefix, nlane))


def run_group(g, gid):
    kind, _, name = gid.partition(":")
    if kind == "expectation":
        return expectation(g)
    case = corpus.get(name)
    gf = rs.to_genjax(case.prog)
    g.programs.add(case.name)
    g.sample(program=rs.source(case.prog), group=gid)
    cm = gfi.example_choices(gf, case.args, case.kwargs)
    paths = gfi.leaf_paths(cm)
    first = True
    for C in gfi.subsets(paths):
        tag = "{" + ",".join("/".join(p) for p in C) + "}"
        x = rs.submap(cm, C)

        def f(x, args, kwargs):
            tr, w = gf.generate(x, *args, **kwargs)
            return tr, w, tr.get_choices(), tr.get_score(), tr.get_retval()
        T = g.try_trace(f"generate{tag} traces", f, x, tuple(case.args), case.kwargs)
        if T is None:
            continue
        x_s, args_s, kw_s = T.ins
        tr, w, ch, score, retval = T.outs
        Cset = set(C)
        constrained = lambda p: p in Cset
        rctx = rs.RefCtx()
        ref = rs.ref_eval(case.prog, rs.state_of_canon(rs.canon_trace(tr)), list(args_s), kw_s, rctx)
        sup = list(rctx.support)
        # constrained addresses hold the given values unchanged
        for pth in C:
            a, b = rs.get_path(ch, pth), rs.get_path(x_s, pth)
            same = all(u.eq(v) for u, v in zip(sj.terms(a), sj.terms(b))) and sj.obj(a).shape == sj.obj(b).shape
            if same:
                g.ok(f"generate{tag}: constrained {'/'.join(pth)} unchanged", True)
            else:
                g.eq(f"generate{tag}: constrained {'/'.join(pth)} unchanged", a, b, sup)
        g.eq(f"generate{tag}: weight == sum of log probabilities of the constrained choices", w,
             ref_weight(case.prog, ref, constrained), sup)
        g.eq(f"generate{tag}: coherent trace", rs.canon_trace(tr), ref.canon(), sup)
        g.eq(f"generate{tag}: score == -log density", score, ref.get_score(), sup)
        g.eq(f"generate{tag}: retval", retval, ref.get_retval(), sup)
        g.eq(f"generate{tag}: visible choices", ch, ref.get_choices(), sup)
        gfi.site_law_obligations(g, T, rctx, f"generate{tag}",
                                 lambda p, rec: p not in Cset, sup)
        if first and C:
            first = False
            g.fault_twin("weight-is-full-density", solve.eq_arrays(w, gfi.neg(ref.get_score())) if len(C) < len(paths) else z3.BoolVal(False), sup)
    if paths:
        g.assume(*[])


def expectation(g):
    """E[exp(weight)] == marginal probability of the constraints, discharged inside the solver for a
    Bernoulli-only program: finite sum over outcome vectors with symbolic probabilities."""
    from genjax import gen, flip
    @gen
    def m(p, q0, q1):
        a = flip(p) @ "a"
        b = flip(jax.numpy.where(a, q1, q0)) @ "b"
        return b

    def f(bval, p, q0, q1):
        tr, w = m.generate({"b": bval}, p, q0, q1)
        return w, tr.get_choices()["a"]
    T = g.try_trace("generate traces", f, np.bool_(True), np.float32(0.3), np.float32(0.2), np.float32(0.6))
    if T is None:
        return
    T.no_validate = False
    bval, p, q0, q1 = [sj.obj(x).item() for x in T.ins]
    w, a = T.outs
    a_var = sj.obj(a).item()
    wt = sj.unlog(sj.obj(w).item())
    dom = [p > 0, p < 1, q0 > 0, q0 < 1, q1 > 0, q1 < 1]
    # E over a ~ flip(p) of exp(w(a)), with Exp(Log t) = t made explicit via substitution of the outcome
    terms = []
    for aval, pa in ((True, p), (False, 1 - p)):
        wa = z3.substitute(wt, (a_var, z3.BoolVal(aval)))
        terms.append((pa, z3.simplify(wa)))
    # marginal of b: p*q1 + (1-p)*q0 for b=True
    for bconst, marg in ((True, p * q1 + (1 - p) * q0), (False, p * (1 - q1) + (1 - p) * (1 - q0))):
        # weight must be Log of a probability: check w(a) == Log(P_a) with P_a as documented, then sum
        exps = []
        okform = True
        for (pa, wa), qa in zip(terms, (q1, q0)):
            wb = z3.simplify(z3.substitute(wa, (bval, z3.BoolVal(bconst))))
            pb = qa if bconst else 1 - qa
            r = g.holds(f"b={bconst}: weight(a) == Log p(b|a)", wb == sj.Log(pb), dom)
            exps.append(pa * pb)
        g.holds(f"b={bconst}: sum_a p(a) exp(weight(a)) == p(b)", exps[0] + exps[1] == marg, dom)
