"""C16: selections are a Boolean algebra on addresses; filter/merge partition choices.

CrossHair executes the real `match` methods, `sel`, `Fn.filter` and `Fn.merge` symbolically (symbolic
strings for names and probed paths, symbolic nested dicts for choice maps); the oracle is the
documented meaning of selections on address paths (vlib/selspec.py).  filter on the combinators
(Vmap/Scan/Cond go through modular_vmap / jnp.where) is encoded with symjax."""
from __future__ import annotations

import itertools
import os

import numpy as np

from .. import selspec
from ..ch import runner

FUNCTIONS = ["AllSel/NoneSel/StrSel/TupleSel/DictSel/ComplSel/InSel/OrSel.match", "Selection.match/__or__/__xor__/__invert__/__contains__",
             "sel", "Fn.filter", "Fn.merge", "Distribution.filter", "Vmap.filter", "Scan.filter", "Cond.filter"]
BOUNDS = {"names": "symbolic strings, len <= 2", "path": "symbolic, depth 0..3", "expressions": "enumerated shapes: atoms sel(), sel(None), sel(()), sel(n), sel((n,)), sel((n,m)), sel((n,m,k)), dict forms; |, ^, ~ to nesting 2",
          "choice maps": "nested dicts with symbolic keys (len <= 1), <= 2 keys per level, depth <= 2, symbolic nesting flags"}
ASSUMPTIONS = ["'selected' = follow the remainders of match down the path and decide at the leaf by () in remainder (the decision regenerate uses)"]
EXPLANATION = "CrossHair per-condition verdicts (Confirmed over all paths / counterexample replayed outside CrossHair)"

ATOMS = [
    ("sel()", "S.NONE"), ("sel(None)", "S.NONE"), ("sel(())", "S.ALL"),
    ("sel(n1)", "S.Str(n1)"), ("sel((n1,))", "S.Tup(n1)"), ("sel((n1, n2))", "S.Tup(n1, n2)"),
    ("sel((n1, n2, n3))", "S.Tup(n1, n2, n3)"),
    ("sel({n1: sel(n2)})", "S.Dict({n1: S.Str(n2)})"),
    ("sel({n1: sel(()), n2: sel((n3, n1))})", "S.Dict({n1: S.ALL, n2: S.Tup(n3, n1)})"),
    ("sel({n1: sel({n2: sel(n3)})})", "S.Dict({n1: S.Dict({n2: S.Str(n3)})})"),
]
B = [("sel(n2)", "S.Str(n2)"), ("sel((n2, n3))", "S.Tup(n2, n3)"), ("sel({n3: sel(n1)})", "S.Dict({n3: S.Str(n1)})"), ("sel(())", "S.ALL")]


def shapes(thorough=False):
    out = list(ATOMS)
    for (a, sa) in ATOMS[3:8]:
        out.append((f"~{a}", f"S.Not({sa})"))
        for bi, (b, sb) in enumerate(B[:3 if not thorough else 4]):
            if bi == 2 and not thorough and a not in ("sel(n1)", "sel({n1: sel(n2)})"):
                continue
            out.append((f"({a} | {b})", f"S.Or({sa}, {sb})"))
            out.append((f"({a} ^ {b})", f"S.And({sa}, {sb})"))
    # nesting 2
    out.append(("~(sel(n1) | sel((n2, n3)))", "S.Not(S.Or(S.Str(n1), S.Tup(n2, n3)))"))
    out.append(("(~sel((n1, n2)) ^ (sel(n1) | sel(n3)))", "S.And(S.Not(S.Tup(n1, n2)), S.Or(S.Str(n1), S.Str(n3)))"))
    out.append(("(sel({n1: ~sel(n2)}) | ~sel(()))", "S.Or(S.Dict({n1: S.Not(S.Str(n2))}), S.Not(S.ALL))"))
    out.append(("~~sel((n1, n2))", "S.Not(S.Not(S.Tup(n1, n2)))"))
    if thorough:
        out.append(("((sel(n1) ^ ~sel((n1, n2))) | sel({n3: sel(())}))", "S.Or(S.And(S.Str(n1), S.Not(S.Tup(n1, n2))), S.Dict({n3: S.ALL}))"))
        out.append(("~(sel({n1: sel((n2, n3))}) ^ ~sel(n2))", "S.Not(S.And(S.Dict({n1: S.Tup(n2, n3)}), S.Not(S.Str(n2))))"))
    return out


FILTER_SHAPES = [
    ("sel(n1)", "S.Str(n1)"), ("sel((n1, n2))", "S.Tup(n1, n2)"), ("(sel(n1) | sel((n2, n1)))", "S.Or(S.Str(n1), S.Tup(n2, n1))"),
    ("~sel((n1, n2))", "S.Not(S.Tup(n1, n2))"), ("sel({n1: sel(n2)})", "S.Dict({n1: S.Str(n2)})"),
    ("(sel(()) ^ ~sel(n1))", "S.And(S.ALL, S.Not(S.Str(n1)))"), ("sel()", "S.NONE"), ("sel(())", "S.ALL"),
    ("sel((n1, n2, n1))", "S.Tup(n1, n2, n1)"),
]

PRE = '''from typing import Dict, Union
from genjax.core import sel, Selection, Fn, const
from vlib import selspec as S
_G = Fn(source=const(lambda: None))
AL = ("a", "b", "c")


def real(s, path):
    cur = s
    for a in path:
        _, cur = cur.match(a)
    return cur.match(())[0]


def leaves(x, prefix=()):
    out = {}
    for k, v in x.items():
        if isinstance(v, dict):
            out.update(leaves(v, prefix + (k,)))
        else:
            out[prefix + (k,)] = v
    return out
'''

MATCH_T = '''def {name}(n1: str, n2: str, n3: str, p1: str, p2: str, p3: str, d: int) -> bool:
    """
    pre: len(n1) <= 2 and len(n2) <= 2 and len(n3) <= 2 and len(p1) <= 2 and len(p2) <= 2 and len(p3) <= 2 and 0 <= d <= 3
    post: _
    """
    path = (p1, p2, p3)[:d]
    s = {expr}
    spec = {spec}
    return real(s, path) == spec.selected(path) and ((path[0] in s) == s.match(path[0])[0] if d else True)
'''

TWIN_T = '''def {name}(n1: str, n2: str, n3: str, p1: str, p2: str, p3: str, d: int) -> bool:
    """
    pre: len(n1) <= 2 and len(n2) <= 2 and len(n3) <= 2 and len(p1) <= 2 and len(p2) <= 2 and len(p3) <= 2 and 0 <= d <= 3
    post: _
    """
    path = (p1, p2, p3)[:d]
    s = {expr}
    spec = {spec}
    return real(s, path) != spec.selected(path)
'''

MATCH_IDX_T = '''def {name}(i1: int, i2: int, i3: int, q1: int, q2: int, q3: int, d: int) -> bool:
    """
    pre: 0 <= i1 < {na} and 0 <= i2 < {na} and 0 <= i3 < {na} and 0 <= q1 < {nq} and 0 <= q2 < {nq} and 0 <= q3 < {nq} and 0 <= d <= 3
    post: _
    """
    n1, n2, n3 = AL[i1], AL[i2], AL[i3]
    path = (AL[q1], AL[q2], AL[q3])[:d]
    s = {expr}
    spec = {spec}
    return real(s, path) == spec.selected(path) and ((path[0] in s) == s.match(path[0])[0] if d else True)
'''

FILTER_T = '''def {name}(ik1: int, ik2: int, ij1: int, ij2: int, nest1: bool, nest2: bool, two: bool, in1: int, in2: int) -> bool:
    """
    pre: 0 <= ik1 < {nk} and 0 <= ik2 < {nk} and 0 <= ij1 < 2 and 0 <= ij2 < 2 and 0 <= in1 < 3 and 0 <= in2 < 3
    post: _
    """
    k1, k2, j1, j2, n1, n2 = AL[ik1], AL[ik2], AL[ij1], AL[ij2], AL[in1], AL[in2]
    x = {{}}
    x[k1] = {{j1: 1, j2: 2}} if nest1 else 3
    if two:
        x[k2] = {{j2: 4}} if nest2 else 5
    s = {expr}
    spec = {spec}
    a, b = _G.filter(x, s)
    la = leaves(a) if a else {{}}
    lb = leaves(b) if b else {{}}
    lx = leaves(x)
    if set(la) & set(lb):
        return False
    if {{**la, **lb}} != lx:
        return False
    for p in lx:
        if (p in la) != spec.selected(p):
            return False
    if a and b:
        m, d = _G.merge(a, b)
        if m != x or d is not None:
            return False
    return True
'''


MERGE_T = '''def {name}(ik1: int, ik2: int, ij1: int, ij2: int, ij3: int, il2: int, nx: bool, ny: bool) -> bool:
    """
    pre: 0 <= ik1 < 2 and 0 <= ik2 < 2 and 0 <= ij1 < 2 and 0 <= ij2 < 2 and 0 <= ij3 < 2 and 0 <= il2 < 2
    post: _
    """
    k1, k2, j1, j2, j3, l1, l2 = AL[ik1], AL[ik2], AL[ij1], AL[ij2], AL[ij3], AL[0], AL[il2]
    deep = {deep}
    # two nested choice maps (depth <= 3) with symbolic keys, possibly overlapping at any depth
    x = {{}}
    x[k1] = {{j1: ({{l1: 1}} if deep else 2), j2: 3}} if (nx or deep) else 4
    y = {{}}
    y[k2] = {{j3: ({{l2: 10}} if deep else 20)}} if (ny or deep) else 40
    m, d = _G.merge(x, y)
    lx, ly, lm = leaves(x), leaves(y), leaves(m)
    ld = leaves(d) if d else {{}}
    # a leaf/sub-map conflict (one side a dict, the other a leaf at the same path): the second argument wins as a whole
    def covered(p, by):
        return any(q == p[:len(q)] or p == q[:len(p)] for q in by)
    for p, v in lm.items():
        if p in ly:
            if v != ly[p]:
                return False
        elif p in lx:
            if v != lx[p]:
                return False
        else:
            return False
    for p in ly:
        if p not in lm:
            return False
    for p in lx:
        if p not in lm and not covered(p, ly):
            return False
    # discarded: exactly the first argument's values at paths the second argument overrides
    for p, v in ld.items():
        if p not in lx or lx[p] != v or not covered(p, ly):
            return False
    for p in lx:
        if p in ly and p not in ld:
            return False
    return True
'''


def groups(tier, seed):
    from .. import corpus
    return ["ch"] + [f"gfilter:{c.name}" for c in corpus.cases(tier) if c.prog.kind == "fn" or "top" in c.features]


def run_group(g, gid):
    kind, _, rest = gid.partition(":")
    if kind == "gfilter":
        return gfilter(g, rest)
    th = g.tier == "thorough"
    tmo = 600 if th else 150
    units, descs = [], {}
    for k, (e, sp) in enumerate(shapes(th)):
        name = f"law_{k}"
        if "{" in e:   # dict selections hash their keys: names from a finite alphabet (symbolic index)
            # (3-letter names in thorough were measured 'Not confirmed' within 400 s per condition; 2-letter names with
            # 3-letter probed paths finish in < 200 s)
            units.append((name, MATCH_IDX_T.format(name=name, expr=e, spec=sp, na=2, nq=3 if th else 2)))
            descs[name] = f"path selected by {e} iff the documented meaning says so (selection names from a 2-letter alphabet, probed path from 2 letters quick / 3 thorough)"
        else:
            units.append((name, MATCH_T.format(name=name, expr=e, spec=sp)))
            descs[name] = f"path selected by {e} iff the documented meaning says so (symbolic strings)"
    for k, (e, sp) in enumerate(FILTER_SHAPES):
        name = f"filt_{k}"
        units.append((name, FILTER_T.format(name=name, expr=e.replace("n3", "n1"), spec=sp.replace("n3", "n1"), nk=3 if th else 2)))
        descs[name] = f"Fn.filter(x, {e}) partitions x: disjoint, union/merge == x, first part == selected leaves"
    for nm, deep in (("merge_0", False), ("merge_1", True)):
        units.append((nm, MERGE_T.format(name=nm, deep=deep)))
        descs[nm] = (f"Fn.merge(x, y) on choice maps of depth {3 if deep else 2}: every leaf of y survives, leaves of x survive unless y overrides them, at "
                     "EVERY nesting depth (second argument takes precedence); discarded == x's overridden values")
    e, sp = shapes(th)[5]
    units.append(("twin_reach", TWIN_T.format(name="twin_reach", expr=e, spec=sp)))
    units.append(("twin_fault", MATCH_T.format(name="twin_fault", expr="sel((n1, n2))", spec="S.Str(n1)")))
    # heavy units first
    units.sort(key=lambda u: 0 if u[0].startswith(("filt", "merge")) else (1 if "AL[i1]" in u[1] else 2))
    res, path, d = runner.run_units(units, PRE, timeout_s=tmo, jobs=14)
    try:
        for name, _ in units:
            verdict, detail, secs = res[name]
            if name == "twin_reach":
                # reachability twin: the negated law must be refuted (assertion reachable, not vacuous)
                if verdict == "counterexample":
                    g.twins_ok += 1
                else:
                    g._rec("reachability-twin", "error", detail=f"negated law not refuted: {verdict} {detail}")
                continue
            if name == "twin_fault":
                if verdict == "counterexample":
                    g.fault_twins_ok += 1
                else:
                    g._rec("fault-twin", "error", detail=f"wrong spec not refuted: {verdict} {detail}")
                continue
            desc = descs[name]
            g._nontrivial.add(desc)
            if verdict == "confirmed":
                g._rec(desc, "proved", time=secs, detail="CrossHair: Confirmed over all paths")
            elif verdict == "counterexample":
                rep, txt = runner.replay_counterexample(path, detail)
                if rep:
                    g._rec(desc, "violation", time=secs, detail=f"CrossHair counterexample, reproduced outside CrossHair: {txt}",
                           replay_kind="structural")
                else:
                    g._rec(desc, "inconclusive", time=secs, detail=f"counterexample did not reproduce: {detail} / {txt}")
            else:
                g._rec(desc, "inconclusive", time=secs, detail=f"CrossHair: {verdict}: {detail}")
        g.sample(unit=units[0][1][:900])
        g.sample(unit=units[-3][1][:900])
    finally:
        import shutil
        shutil.rmtree(d, ignore_errors=True)


def gfilter(g, name):
    """gf.filter on the corpus programs (Vmap/Scan/Cond delegate through modular_vmap): selected part
    holds exactly the selected leaves (same terms), unselected part the rest"""
    from .. import symjax as sj, refsem as rs, corpus, gfi
    case = corpus.get(name)
    gf = rs.to_genjax(case.prog)
    g.programs.add(case.name)
    cm = gfi.example_choices(gf, case.args, case.kwargs)
    paths = gfi.leaf_paths(cm)
    for spec in selspec.enumerate_selections(paths, g.tier == "thorough"):
        s = spec.build()
        tag = f"[{spec!r}]"
        T = g.try_trace(f"filter{tag} traces", lambda x: gf.filter(x, s), cm)
        if T is None:
            continue
        (x_s,) = T.ins
        a, b = T.outs
        la = {p: rs.get_path(a, p) for p in (gfi.leaf_paths(a) if a is not None else [])}
        lb = {p: rs.get_path(b, p) for p in (gfi.leaf_paths(b) if b is not None else [])}
        if not isinstance(cm, dict):
            la = {(): a} if a is not None else {}
            lb = {(): b} if b is not None else {}
        ok, why = True, ""
        for p in paths:
            want = spec.selected(p)
            part, other = (la, lb) if want else (lb, la)
            if p not in part or p in other:
                ok, why = False, f"leaf {'/'.join(p)} selected={want} but found in the {'unselected' if want else 'selected'} part"
                break
            v, x = sj.obj(part[p]), sj.obj(rs.get_path(x_s, p))
            if v.shape != x.shape or not all(u.eq(w) for u, w in zip(sj.terms(v), sj.terms(x))):
                ok, why = False, f"leaf {'/'.join(p)} value changed by filter"
                break
        if ok and (set(la) | set(lb)) != set(paths):
            ok, why = False, "parts contain addresses that are not in the choice map"
        g.ok(f"gf.filter{tag}: parts are disjoint, cover x, first part == leaves selected per the documented meaning", ok, why)
