"""C20, linear-Gaussian part: kalman_filter / kalman_smoother / linear_gaussian step model against the joint Gaussian
of (x_1..x_T, y_1..y_T) written out directly from the model equations.

The reference never inverts a matrix.  A function f(y) is the conditional mean E[x | y_J] of a joint Gaussian iff it is
affine in y_J, f(E y) = E x and the residual x - f(y) is uncorrelated with y_J (B S_JJ = S_xJ, B the slope); the
conditional covariance is then S_xx - B S_Jx.  A function g(z) is the log density of N(m, S) iff
g(z) - g(m) = -1/2 (z-m)' L (z-m) with L S = I, and g(m) = -n/2 log(2 pi) - 1/2 log det S.  Slopes B and the matrix L are
read off the code's own output terms by exact finite differences, so every obligation is an identity between rational
functions (with square roots from Cholesky factors) of the model parameters, decided by ring normal form + z3."""
from __future__ import annotations

import itertools
import math
from fractions import Fraction

import numpy as np
import z3

import jax
import jax.numpy as jnp

from .. import symjax as sj, solve


def chol_pd(name, n):
    """all symmetric positive-definite n x n matrices, parametrised by their Cholesky factor (positive diagonal)"""
    L = np.empty((n, n), dtype=object)
    cons = []
    for i in range(n):
        for j in range(n):
            if j > i:
                L[i, j] = z3.RealVal(0)
            else:
                L[i, j] = z3.Real(f"{name}{i}{j}")
                if i == j:
                    cons.append(L[i, j] > 0)
    S = np.empty((n, n), dtype=object)
    for i in range(n):
        for j in range(n):
            S[i, j] = z3.simplify(sum(L[i, k] * L[j, k] for k in range(min(i, j) + 1)))
    return S, cons


def mm(*Ms):
    out = Ms[0]
    for M in Ms[1:]:
        out = np.dot(out, M)
    return out


def mat(name, r, c):
    return sj.fresh_like((r, c), np.float32, name)


def diag_pd(name, n):
    S = np.empty((n, n), dtype=object)
    cons = []
    for i in range(n):
        for j in range(n):
            S[i, j] = z3.RealVal(0)
        v = z3.Real(f"{name}{i}{i}")
        cons.append(v > 0)
        S[i, i] = v * v
    return S, cons


class LG:
    def __init__(self, ds, do, T, structured=False):
        """structured=True: a sub-family that keeps the normal forms small for d_state = 2 -- a NON-symmetric upper-triangular
        transition matrix, diagonal initial and process covariances (all entries still symbolic)"""
        self.ds, self.do, self.T = ds, do, T
        self.mu0 = sj.fresh_like((ds,), np.float32, "mu")
        self.A = mat("A", ds, ds)
        if structured:
            self.S0, c0 = diag_pd("s", ds)
            self.Q, c1 = diag_pd("q", ds)
            for i in range(ds):
                for j in range(i):
                    self.A[i, j] = z3.RealVal(0)
        else:
            self.S0, c0 = chol_pd("s", ds)
            self.Q, c1 = chol_pd("q", ds)
        self.C = mat("C", do, ds)
        self.R, c2 = chol_pd("r", do)
        self.Y = mat("y", T, do)
        self.cons = c0 + c1 + c2
        self._joint()

    def example(self):
        ds, do, T = self.ds, self.do, self.T
        return (jnp.zeros((T, do)), jnp.zeros(ds), jnp.eye(ds), jnp.eye(ds) * 0.5, jnp.eye(ds), jnp.ones((do, ds)), jnp.eye(do))

    def sym(self):
        return [self.Y, self.mu0, self.S0, self.A, self.Q, self.C, self.R]

    def _joint(self):
        """means and covariances of the joint Gaussian of x_0..x_{T-1}, y_0..y_{T-1}, from the model equations"""
        T, A, C = self.T, self.A, self.C
        mx = [self.mu0]
        P = [self.S0]
        for t in range(1, T):
            mx.append(mm(A, mx[-1]))
            P.append(mm(A, P[-1], A.T) + self.Q)
        self.mx = mx
        self.my = [mm(C, m) for m in mx]
        Cxx = [[None] * T for _ in range(T)]
        for s in range(T):
            cur = P[s]                       # Cov(x_s, x_s)
            Cxx[s][s] = cur
            for t in range(s + 1, T):
                cur = mm(cur, A.T)           # Cov(x_s, x_t) = Cov(x_s, x_{t-1}) A'
                Cxx[s][t] = cur
                Cxx[t][s] = cur.T
        self.Cxx = Cxx
        self.Cxy = [[mm(Cxx[s][t], C.T) for t in range(T)] for s in range(T)]
        self.Cyy = [[mm(C, Cxx[s][t], C.T) + (self.R if s == t else 0) for t in range(T)] for s in range(T)]

    def yvars(self):
        return list(self.Y.ravel())

    def my_flat(self, upto=None):
        return [e for t in range(self.T if upto is None else upto) for e in self.my[t]]

    def Syy(self, n):
        """Cov of (y_0..y_{n-1}) as one (n do) x (n do) matrix"""
        return np.block([[self.Cyy[s][t] for t in range(n)] for s in range(n)])

    def Sxy(self, t, n):
        """Cov(x_t, (y_0..y_{n-1}))"""
        return np.concatenate([self.Cxy[t][u] for u in range(n)], axis=1)


def at(terms, zvars, vals):
    """substitute the variables zvars by the terms vals in every element"""
    sub = [(v, z3.simplify(x) if z3.is_expr(x) else sj.RV(x)) for v, x in zip(zvars, vals)]
    arr = sj.obj(terms)
    out = np.empty(arr.shape, dtype=object)
    for idx in np.ndindex(arr.shape):
        out[idx] = z3.substitute(sj.unlog(arr[idx]), *sub)
    return out


def slope(f, zvars, base):
    """for an affine f: the matrix B with f(z) = f(base) + B (z - base), by exact finite differences"""
    f0 = at(f, zvars, base)
    cols = []
    for j in range(len(zvars)):
        bump = [b + (1 if i == j else 0) for i, b in enumerate(base)]
        cols.append(at(f, zvars, bump) - f0)
    return f0, np.stack(cols, axis=-1)


def flat_pairs(a, b):
    a, b = np.broadcast_arrays(sj.obj(a), sj.obj(b))
    return [sj.unlog(x) for x in a.ravel()], [sj.unlog(y) for y in b.ravel()]


def det(M):
    M = sj.obj(M)
    n = M.shape[0]
    if n == 0:
        return z3.RealVal(1)
    if n == 1:
        return M[0, 0]
    tot = None
    for j in range(n):
        minor = np.delete(np.delete(M, 0, axis=0), j, axis=1)
        term = M[0, j] * det(minor)
        if j % 2:
            term = -term
        tot = term if tot is None else tot + term
    return tot


def conditional_mean_obligations(g, tag, what, f, Pcov, lg, t, n_cond, R, with_cov=True):
    """f: code's mean for x_t (ds terms), Pcov: code's covariance (ds x ds); conditioning on y_0..y_{n_cond-1}"""
    yv = lg.yvars()
    base = lg.my_flat()
    f0, B = slope(f, yv, base)
    n = n_cond * lg.do
    dy = np.array([y - m for y, m in zip(yv, base)], dtype=object)
    g.rat_eq(f"{tag}: {what} mean of x_{t} is affine in the observations", *flat_pairs(f, f0 + mm(B, dy)), **R)
    g.rat_eq(f"{tag}: {what} mean of x_{t} at the prior mean of y is the prior mean of x_{t} (unbiased)", *flat_pairs(f0, lg.mx[t]), **R)
    if n < len(yv):
        g.rat_eq(f"{tag}: {what} mean of x_{t} does not depend on later observations", *flat_pairs(B[:, n:], np.zeros((lg.ds, len(yv) - n), dtype=int) + z3.RealVal(0)), **R)
    Bc = B[:, :n]
    if with_cov:
        g.rat_eq(f"{tag}: {what} residual x_{t} - mean is uncorrelated with y_0..y_{n_cond - 1} (B S_yy == S_xy: conditional expectation of the joint Gaussian)",
                 *flat_pairs(mm(Bc, lg.Syy(n_cond)), lg.Sxy(t, n_cond)), **R)
    if with_cov:
        g.rat_eq(f"{tag}: {what} covariance of x_{t} == S_xx - B S_yx (conditional covariance of the joint Gaussian)",
                 *flat_pairs(Pcov, lg.Cxx[t][t] - mm(Bc, lg.Sxy(t, n_cond).T)), **R)
    # teeth: the slope transposed / a wrong block must be refuted
    return B


def gaussian_logpdf_obligations(g, tag, what, gterm, zvars, mean, S, R, paths, assumptions):
    """gterm (a z3 term in zvars and parameters) is the log density of N(mean, S)"""
    n = len(zvars)
    gt = sj.obj(gterm)
    g0 = at(gt, zvars, mean).item()
    gi = []
    for i in range(n):
        gi.append(at(gt, zvars, [m + (1 if k == i else 0) for k, m in enumerate(mean)]).item())
    Lm = np.empty((n, n), dtype=object)
    for i in range(n):
        Lm[i, i] = -2 * (gi[i] - g0)
        for j in range(i + 1, n):
            gij = at(gt, zvars, [m + (1 if k in (i, j) else 0) for k, m in enumerate(mean)]).item()
            Lm[i, j] = Lm[j, i] = -(gij - gi[i] - gi[j] + g0)
    dz = [z - m for z, m in zip(zvars, mean)]
    quad = sum(Lm[i, j] * dz[i] * dz[j] for i in range(n) for j in range(n))
    g.rat_eq(f"{tag}: {what} - its value at the mean is the quadratic form -1/2 (z-m)' L (z-m)", gt.item() - g0, -quad / 2, **R)
    eye = np.array([[z3.RealVal(1 if i == j else 0) for j in range(n)] for i in range(n)], dtype=object)
    g.rat_eq(f"{tag}: the precision L read off {what} is the inverse of the reference covariance (L S == I)", *flat_pairs(mm(Lm, S), eye), **R)
    # constant part: value at the mean == -n/2 log(2 pi) - 1/2 log det S
    ok, why = True, ""
    A = list(g.assumptions) + list(assumptions)
    prods = []
    for path in (paths or [[]]):
        try:
            t = solve.resolve_ites(z3.simplify(g0), A + list(path))
            c, logs = loglin(t)
        except Exception as e:
            ok, why = False, f"value at the mean is not of the form c + sum k_j Log(a_j): {e}"
            break
        ref = -(n / 2.0) * math.log(2 * math.pi)
        if abs(float(c) - ref) > 2e-5 * max(1.0, abs(ref)):
            ok, why = False, f"constant {float(c)!r} where -n/2 log(2 pi) = {ref!r}"
            break
        prod = z3.RealVal(1)
        for arg, k in logs:
            e = -2 * k
            if e.denominator != 1 or e == 0:
                ok, why = False, f"coefficient {k} of Log({str(arg)[:60]})"
                break
            for _ in range(abs(int(e))):
                prod = prod * arg if e > 0 else prod / arg
        prods.append((path, prod))
    g.ok(f"{tag}: {what} at the mean == c + sum of log terms with c == -n/2 log(2 pi)", ok, why)
    if ok:
        dS = det(S)
        for path, prod in prods:
            Rp = dict(R)
            Rp["paths"] = [path]
            g.rat_eq(f"{tag}: exp(-2 (log terms of {what} at the mean)) == det S (normalising constant)" + (f" [path {len(path)} conds]" if path else ""),
                     prod, dS, **Rp)


def loglin(t):
    """t == c + sum_j k_j Log(a_j) as rational functions; returns (c, [(a_j, k_j)]) with exact rational c, k_j"""
    rc = solve.RatCtx()
    P, F = solve.rat_of(z3.simplify(t), rc)
    Q = rc.expand(F)
    P, D1 = solve._reduce_sqrt_poly(P, rc)
    Q, D2 = solve._reduce_sqrt_poly(Q, rc)
    P, Q = solve._pmul(P, D2), solve._pmul(Q, D1)
    groups = {}
    const_logs = Fraction(0)
    for m, c in P.items():
        logs = [(k, e) for k, e in m if sj.is_app_of(rc.atoms[k], "Log", 1)]
        if len(logs) > 1 or (logs and logs[0][1] != 1):
            raise ValueError("nonlinear in Log terms")
        key = logs[0][0] if logs else None
        rest = tuple(x for x in m if not logs or x[0] != key)
        groups.setdefault(key, {})[rest] = c

    def ratio(Pj):
        if not Pj:
            return Fraction(0)
        m0 = sorted(Q)[0] if Q else None
        if m0 is None or m0 not in Pj:
            raise ValueError("not proportional to the denominator")
        k = Fraction(Pj[m0]) / Fraction(Q[m0])
        if solve._padd(Pj, solve._pscale(Q, k), -1):
            raise ValueError("not proportional to the denominator")
        return k
    c = float(ratio(groups.pop(None, {})))
    out = []
    for key, Pj in groups.items():
        arg = rc.atoms[key].arg(0)
        k = ratio(Pj)
        if sj.is_num(arg):
            c += float(k) * math.log(float(sj.num_val(arg)))      # Log of a literal (e.g. log(2 pi) computed at trace time)
        else:
            out.append((arg, k))
    return c, out


def kalman(g, ds, do, T, smoother=False, structured=False):
    from genjax.extras.state_space import kalman_filter, kalman_smoother, linear_gaussian_exact_log_marginal
    lg = LG(ds, do, T, structured)
    tag = f"d_state={ds} d_obs={do} T={T}" + (" (upper-triangular A, diagonal S0 and Q)" if structured else "")
    if smoother:
        Tr = g.try_trace(f"{tag}: kalman_smoother traces", kalman_smoother, *lg.example(), sym_in=lg.sym())
    else:
        Tr = g.try_trace(f"{tag}: kalman_filter traces", lambda *a: (kalman_filter(*a), linear_gaussian_exact_log_marginal(*a)),
                         *lg.example(), sym_in=lg.sym())
    if Tr is None:
        return
    g.assume(*lg.cons)
    if smoother:
        means, covs = Tr.outs
        lml = None
    else:
        (means, covs, lml), lml2 = Tr.outs
    means, covs = sj.obj(means), sj.obj(covs)
    g.ok(f"{tag}: output shapes (T, d_state) and (T, d_state, d_state)", means.shape == (T, ds) and covs.shape == (T, ds, ds))
    allterms = sj.terms(means) + sj.terms(covs) + (sj.terms(lml) if lml is not None else [])
    try:
        paths = solve.enumerate_paths(allterms, lg.cons)
    except RuntimeError as e:
        g._rec(f"{tag}: path enumeration", "inconclusive", detail=str(e))
        return
    g.ok(f"{tag}: {len(paths)} feasible branch path(s) (pivot / abs choices) enumerated", len(paths) >= 1)
    R = dict(paths=paths)
    if structured:
        R["timeout_ms"] = 60000       # side-condition queries: the quick budget also in the thorough tier (measured)
    what = "smoothed" if smoother else "filtered"
    for t in range(T):
        # (structured d_state = 2 smoother: the slope and covariance identities of the earlier steps exceed the budget --
        # measured; there the smoothed mean is checked to be affine and unbiased, which already fixes the orientation of
        # the transition matrix in the prediction step; the last step gets the full set)
        conditional_mean_obligations(g, tag, what, means[t], covs[t], lg, t, T if smoother else t + 1, R,
                                     with_cov=not (structured and smoother and t < T - 1))
    if lml is not None:
        n = T
        Sy = lg.Syy(n)
        gaussian_logpdf_obligations(g, tag, "log marginal likelihood", lml, lg.yvars(), lg.my_flat(), Sy, R, paths, [])
        g.eq(f"{tag}: linear_gaussian_exact_log_marginal == kalman_filter's log marginal", lml2, lml)
    # teeth
    if T > 1 and not smoother:
        yv, base = lg.yvars(), lg.my_flat()
        f0, B = slope(means[T - 1], yv, base)
        n = T * do
        l, r = flat_pairs(mm(B[:, :n], lg.Syy(T)), lg.Sxy(T - 2, T))
        g.fault_twin("slope-against-covariance-with-the-wrong-time-step",
                     z3.And(*[a == b for a, b in zip(l, r)]))


def lg_step(g, ds, do):
    """one step of the linear_gaussian step model: density of (state, obs) given prev/time index"""
    from genjax.extras.state_space import linear_gaussian
    lg = LG(ds, do, 1)
    tag = f"d_state={ds} d_obs={do}"
    prev = sj.fresh_like((ds,), np.float32, "prev")
    x = sj.fresh_like((ds,), np.float32, "x")
    y = sj.fresh_like((do,), np.float32, "yy")
    tix = z3.Int("tix")
    ex = lg.example()

    def f(x_, y_, prev_, t_, *ps):
        d, r = linear_gaussian.assess({"state": x_, "obs": y_}, prev_, t_, *ps)
        return d, r
    Tr = g.try_trace(f"{tag}: linear_gaussian.assess traces", f, jnp.zeros(ds), jnp.zeros(do), jnp.zeros(ds), jnp.int32(0), *ex[1:],
                     sym_in=[x, y, prev, sj.obj(tix)] + lg.sym()[1:])
    if Tr is None:
        return
    g.assume(*lg.cons)
    g.assume(tix >= 0)
    d, r = Tr.outs
    g.eq(f"{tag}: step returns (state, t + 1, parameters unchanged)", r,
         (x, sj.obj(tix + 1), lg.mu0, lg.S0, lg.A, lg.Q, lg.C, lg.R))
    zv = list(x) + list(y)
    for init in (True, False):
        cond = [(tix == 0) if init else (tix > 0)]
        mxs = lg.mu0 if init else mm(lg.A, prev)
        Sx = lg.S0 if init else lg.Q
        mean = list(mxs) + list(mm(lg.C, mxs))
        S = np.block([[Sx, mm(Sx, lg.C.T)], [mm(lg.C, Sx), mm(lg.C, Sx, lg.C.T) + lg.R]])
        try:
            paths = solve.enumerate_paths([sj.unlog(sj.obj(d).item())], list(g.assumptions) + cond)
        except RuntimeError as e:
            g._rec(f"{tag}: path enumeration", "inconclusive", detail=str(e))
            return
        paths = [cond + p for p in paths]
        R = dict(paths=paths)
        gaussian_logpdf_obligations(g, tag + (" t=0" if init else " t>0"), "step density", d, zv, mean, S, R, paths, [])


def lg_iter(g, ds, do, T):
    """the step model iterated (carrying its own return value) is the joint density of (x_0..x_{T-1}, y_0..y_{T-1})"""
    from genjax.extras.state_space import linear_gaussian
    lg = LG(ds, do, T)
    tag = f"d_state={ds} d_obs={do} T={T}"
    X = mat("x", T, ds)
    ex = lg.example()

    def f(xs, ys, *ps):
        carry = (jnp.zeros(ds), jnp.int32(0)) + tuple(ps)
        total = 0.0
        for t in range(T):
            d, carry = linear_gaussian.assess({"state": xs[t], "obs": ys[t]}, *carry)
            total = total + d
        return total
    Tr = g.try_trace(f"{tag}: iterated linear_gaussian.assess traces", f, jnp.zeros((T, ds)), *ex, sym_in=[X] + lg.sym())
    if Tr is None:
        return
    g.assume(*lg.cons)
    d = Tr.outs
    zv = list(X.ravel()) + lg.yvars()
    mean = [e for t in range(T) for e in lg.mx[t]] + lg.my_flat()
    Sxx = np.block([[lg.Cxx[s][t] for t in range(T)] for s in range(T)])
    Sxy = np.block([[lg.Cxy[s][t] for t in range(T)] for s in range(T)])
    S = np.block([[Sxx, Sxy], [Sxy.T, lg.Syy(T)]])
    try:
        paths = solve.enumerate_paths([sj.unlog(sj.obj(d).item())], list(g.assumptions))
    except RuntimeError as e:
        g._rec(f"{tag}: path enumeration", "inconclusive", detail=str(e))
        return
    gaussian_logpdf_obligations(g, tag, "sum of step densities", d, zv, mean, S, dict(paths=paths), paths, [])
