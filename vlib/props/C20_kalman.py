def kalman(g, *a, **k): pass
def lg_step(g, *a): pass
def lg_iter(g, *a): pass
