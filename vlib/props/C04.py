"""C04: regenerate resamples exactly the selection and returns the MH weight; defined for every
program and selection."""
from __future__ import annotations

import numpy as np
import z3

import jax

from .. import symjax as sj, refsem as rs, corpus, gfi, solve, selspec
from .C02 import ref_weight
from .C03 import coherent_pre

FUNCTIONS = ["Regenerate handler", "Distribution.regenerate", "Fn.regenerate", "Vmap.regenerate", "Scan.regenerate",
             "Cond.regenerate", "Selection.match chain"]
BOUNDS = {"programs": "corpus", "selections": "sel(), sel(()), every leaf (tuple and dict form), whole sub-calls, complement, union, intersection (nesting <= 2)",
          "pre-state": "arbitrary coherent trace", "arguments": "old and new arguments independent"}
ASSUMPTIONS = ["pre-state coherent", "weight clause: Cond conditions equal before and after (as the property states); definedness/coherence also for switching moves"]
EXPLANATION = "one regenerate from an arbitrary coherent trace per selection; selected set from the documented selection semantics (vlib/selspec.py)"


def groups(tier, seed):
    return [f"regenerate:{c.name}" for c in corpus.cases(tier)]


cond_checks = gfi.cond_checks


def state_leaves(p, st, prefix=()):
    """(address path, branch tag, leaf array) for every distribution leaf of a choice state"""
    if p.kind == "dist":
        return [(prefix, sj.obj(st))]
    if p.kind == "fn":
        out = []
        for s in p.body:
            if isinstance(s, rs.Sample):
                out += state_leaves(s.callee, st[s.addr], prefix + (s.addr,))
        return out
    if p.kind in ("vmap", "scan"):
        return state_leaves(p.callee, st, prefix)
    if p.kind == "cond":
        if isinstance(st, rs.CondState):
            return state_leaves(p.a, st.a, prefix) + state_leaves(p.b, st.b, prefix)
        return state_leaves(p.a, st, prefix)


def run_group(g, gid):
    kind, _, name = gid.partition(":")
    case = corpus.get(name)
    gf = rs.to_genjax(case.prog)
    g.programs.add(case.name)
    g.sample(program=rs.source(case.prog), group=gid)
    tr0 = gfi.example_trace(gf, case.args, case.kwargs)
    cm = gfi.example_choices(gf, case.args, case.kwargs)
    paths = gfi.leaf_paths(cm)
    for spec in selspec.enumerate_selections(paths, g.tier == "thorough"):
        tag = f"[{spec!r}]"
        s = spec.build()

        def f(tr, args, kwargs):
            new, w, d = gf.regenerate(tr, s, *args, **kwargs)
            return new, w, d, new.get_choices()
        T = g.try_trace(f"regenerate{tag} is defined (traces)", f, tr0, tuple(case.args), case.kwargs)
        if T is None:
            continue
        tr_s, args_s, kw_s = T.ins
        new, w, d, ch = T.outs
        pre, state, a_old, kw_old, ref_old, inv = coherent_pre(case, tr_s)
        new_state = rs.state_of_canon(rs.canon_trace(new))
        rctx = rs.RefCtx()
        ref_new = rs.ref_eval(case.prog, new_state, list(args_s), kw_s, rctx)
        A = inv + list(rctx.support)
        sel_p = lambda p: spec.selected(p)
        # unselected choices: bit-identical (same term); selected: fresh draws with the right law
        old_leaves = state_leaves(case.prog, state)
        new_leaves = state_leaves(case.prog, new_state)
        for (p, o), (_, n) in zip(old_leaves, new_leaves):
            if not sel_p(p):
                same = o.shape == n.shape and all(u.eq(v) for u, v in zip(sj.terms(o), sj.terms(n)))
                g.ok(f"regenerate{tag}: unselected {'/'.join(p)} is bit-identical", same,
                     "" if same else f"old {sj.terms(o)[:2]} new {sj.terms(n)[:2]}")
        gfi.site_law_obligations(g, T, rctx, f"regenerate{tag}",
                                 lambda p, rec: sel_p(p), A)
        n_sel_sites = sum(1 for rec in rctx.sites if sel_p(tuple(k for k in rec.path if isinstance(k, str))))
        g.ok(f"regenerate{tag}: draws exactly the selected sites",
             sum(int(np.prod(o.shape)) for st in T.sites for o in st.outs) ==
             sum(int(np.prod(sj.obj(rec.value).shape)) for rec in rctx.sites
                 if sel_p(tuple(k for k in rec.path if isinstance(k, str)))),
             f"{len(T.sites)} sample sites executed")
        g.eq(f"regenerate{tag}: result is coherent under the new arguments", rs.canon_trace(new), ref_new.canon(), A)
        g.eq(f"regenerate{tag}: visible choices", ch, ref_new.get_choices(), A)
        same_branch = [solve.eq_arrays(a, b) for a, b in zip(cond_checks(ref_old, []), cond_checks(ref_new, []))]
        unsel = lambda p: not sel_p(p)
        wref = gfi.sub(ref_weight(case.prog, ref_new, unsel), ref_weight(case.prog, ref_old, unsel))
        g.eq(f"regenerate{tag}: weight == change in joint log density - change in log prior of the selected choices",
             w, wref, A + same_branch, cases=gfi.check_cases(ref_old))
        if spec.kind == "none":
            g.eq(f"regenerate{tag}: empty selection, unchanged args: weight 0", w, sj.obj(sj.RV(0)),
                 A + [solve.eq_trees((rs.recorded_args(case.prog, tuple(args_s)), kw_s), (tuple(a_old), dict(kw_old)))])
        if spec.kind == "all":
            g.eq(f"regenerate{tag}: everything selected: weight 0", w, sj.obj(sj.RV(0)), A + same_branch)
        old_vis = ref_old.get_choices()
        for p in paths:
            if sel_p(p):
                try:
                    dv = rs.get_path(d, p)
                except Exception:
                    dv = None
                if dv is None:
                    g.ok(f"regenerate{tag}: discard holds old value of {'/'.join(p)}", False, "missing from discard")
                else:
                    g.eq(f"regenerate{tag}: discard holds old value of {'/'.join(p)}", dv, rs.get_path(old_vis, p), A)
