"""C13: distributions: documented parameters, normalised density, matching sampler."""
from __future__ import annotations

import math

import numpy as np
import z3

import jax
import jax.numpy as jnp

from .. import symjax as sj, solve, refsem as rs, gfi

FUNCTIONS = ["genjax.distributions (24 wrappers)", "tfp_distribution", "distribution", "wrap_sampler", "wrap_logpdf", "sample_binder",
             "log_density_binder", "seed (sample case)", "modular_vmap batch rule of sample sites"]
BOUNDS = {"distributions": "all 24 exported wrappers + user-wrapped tfp_distribution / distribution instances (one re-using the name of a built-in with another parameterisation)",
          "shapes": "scalar parameters (vector parameters for categorical K=3, dirichlet/multinomial k=2, multivariate_normal d=2); sample_shape () and (2,); modular_vmap batch 2",
          "finite supports for normalisation": "flip, bernoulli, categorical K in {2,3}, binomial n <= 3"}
ASSUMPTIONS = ["normalisation of continuous / infinite-support densities is an integral / series: not an SMT query (outside)",
               "'sample draws from exactly that density' is reduced to: the seeded sampler IS the documented TFP sampler of the documented "
               "object on its own sub-key (TFP's sampler/log_prob consistency is trusted)",
               "rejection-sampling loops inside TFP samplers are abstracted as uninterpreted functions of their inputs"]
EXPLANATION = "per distribution: logpdf vs documented TFP object (argument wiring) and vs hand-written closed forms; finite normalisation in the solver; seeded sampler IR vs documented TFP sampler IR"

f32 = np.float32
PI = math.pi


def A(*x):
    return np.asarray(x, dtype=np.float32)


# name -> (documented TFP constructor with keyword names, example params, example value)
def table():
    T = {
        "bernoulli": (lambda tfd, l: tfd.Bernoulli(logits=l), [f32(0.3)], np.int32(1)),
        "flip": (lambda tfd, p: tfd.Bernoulli(probs=p, dtype=jnp.bool_), [f32(0.3)], np.bool_(True)),
        "beta": (lambda tfd, a, b: tfd.Beta(concentration1=a, concentration0=b), [f32(2.0), f32(3.0)], f32(0.4)),
        "categorical": (lambda tfd, l: tfd.Categorical(logits=l), [A(0.1, 0.2, -0.3)], np.int32(1)),
        "geometric": (lambda tfd, l: tfd.Geometric(logits=l), [f32(0.3)], f32(2.0)),
        "normal": (lambda tfd, m, s: tfd.Normal(loc=m, scale=s), [f32(0.3), f32(1.5)], f32(0.2)),
        "uniform": (lambda tfd, a, b: tfd.Uniform(low=a, high=b), [f32(-1.0), f32(2.0)], f32(0.5)),
        "exponential": (lambda tfd, r: tfd.Exponential(rate=r), [f32(2.0)], f32(0.5)),
        "poisson": (lambda tfd, r: tfd.Poisson(rate=r), [f32(2.0)], f32(3.0)),
        "multivariate_normal": (lambda tfd, m, c: tfd.MultivariateNormalFullCovariance(loc=m, covariance_matrix=c),
                                [A(0.1, 0.2), np.asarray([[2.0, 0.5], [0.5, 1.0]], dtype=np.float32)], A(0.3, -0.1)),
        "dirichlet": (lambda tfd, c: tfd.Dirichlet(concentration=c), [A(1.5, 2.5)], A(0.25, 0.75)),
        "binomial": (lambda tfd, n, l: tfd.Binomial(total_count=n, logits=l), [f32(3.0), f32(0.3)], f32(2.0)),
        "gamma": (lambda tfd, a, r: tfd.Gamma(concentration=a, rate=r), [f32(2.0), f32(1.5)], f32(0.7)),
        "log_normal": (lambda tfd, m, s: tfd.LogNormal(loc=m, scale=s), [f32(0.3), f32(1.5)], f32(0.7)),
        "student_t": (lambda tfd, d, m, s: tfd.StudentT(df=d, loc=m, scale=s), [f32(3.0), f32(0.3), f32(1.5)], f32(0.2)),
        "laplace": (lambda tfd, m, s: tfd.Laplace(loc=m, scale=s), [f32(0.3), f32(1.5)], f32(0.2)),
        "half_normal": (lambda tfd, s: tfd.HalfNormal(scale=s), [f32(1.5)], f32(0.2)),
        "inverse_gamma": (lambda tfd, a, s: tfd.InverseGamma(concentration=a, scale=s), [f32(2.0), f32(1.5)], f32(0.7)),
        "weibull": (lambda tfd, k, s: tfd.Weibull(concentration=k, scale=s), [f32(2.0), f32(1.5)], f32(0.7)),
        "cauchy": (lambda tfd, m, s: tfd.Cauchy(loc=m, scale=s), [f32(0.3), f32(1.5)], f32(0.2)),
        "chi2": (lambda tfd, d: tfd.Chi2(df=d), [f32(3.0)], f32(0.7)),
        "multinomial": (lambda tfd, n, l: tfd.Multinomial(total_count=n, logits=l), [f32(2.0), A(0.1, -0.2)], A(1.0, 1.0)),
        "negative_binomial": (lambda tfd, n, l: tfd.NegativeBinomial(total_count=n, logits=l), [f32(3.0), f32(0.3)], f32(2.0)),
        "zipf": (lambda tfd, p: tfd.Zipf(power=p), [f32(2.5)], np.int32(2)),
    }
    return T


def R(x):
    return sj.RV(x)


def Lg(t):
    return sj.UF("Lgamma", sj.RealS, sj.RealS)(t)


def closed_forms():
    """hand-written log densities of the DOCUMENTED parameterisation (scalars); returns name -> f(v, *params) -> z3 term"""
    L = sj.Log
    HL2PI = R(0.5 * math.log(2 * PI))
    C = {}
    C["normal"] = lambda v, m, s: -((v - m) / s) * ((v - m) / s) / 2 - L(s) - HL2PI
    C["exponential"] = lambda v, r: L(r) - r * v
    C["uniform"] = lambda v, a, b: -L(b - a)
    C["flip"] = lambda v, p: z3.If(v, L(p), L(1 - p))
    C["gamma"] = lambda v, a, r: a * L(r) + (a - 1) * L(v) - r * v - Lg(a)
    return C


def groups(tier, seed):
    gs = []
    for n in table():
        gs += [f"logpdf:{n}", f"sampler:{n}"]
    gs += [f"closed:{n}" for n in closed_forms()]
    gs += ["norm:flip", "norm:bernoulli", "norm:categorical2", "norm:categorical3", "norm:binomial", "closed:categorical", "closed:geometric",
           "user:tfp_distribution", "user:distribution", "user:tfp_distribution_same_name"]
    return gs


def support_assumptions(name, v, ps):
    t = lambda a: sj.terms(a)
    pos = lambda a: [x > 0 for x in t(a)]
    A = []
    if name in ("normal", "laplace", "cauchy", "log_normal"):
        A += pos(ps[1])
    if name in ("exponential", "poisson", "half_normal", "chi2"):
        A += pos(ps[0])
    if name in ("gamma", "beta", "inverse_gamma", "weibull"):
        A += pos(ps[0]) + pos(ps[1])
    if name in ("exponential", "gamma", "half_normal", "poisson"):
        A += [x >= 0 for x in t(v)]
    if name in ("log_normal",):
        A += pos(v)
    if name == "flip":
        A += [z3.And(x > 0, x < 1) for x in t(ps[0])]
    if name == "uniform":
        a, b, x = t(ps[0])[0], t(ps[1])[0], t(v)[0]
        A += [a < b, x >= a, x < b]
    return A


def run_group(g, gid):
    import genjax
    from tensorflow_probability.substrates import jax as tfp
    tfd = tfp.distributions
    kind, _, name = gid.partition(":")
    g.programs.add(gid)
    if kind == "norm":
        return normalisation(g, name)
    if kind == "user":
        return user_wrapped(g, name)
    if kind == "closed" and name in ("categorical", "geometric"):
        return closed_special(g, name)
    ctor, params, value = table()[name]
    import genjax.distributions as gd
    D = getattr(gd, name)
    if kind == "logpdf":
        T = g.try_trace(f"{name}.logpdf traces", lambda v, *ps: D.logpdf(v, *ps), value, *params)
        if T is None:
            return
        Rf = sj.sym_trace(lambda v, *ps: ctor(tfd, *ps).log_prob(v), value, *params, sym_in=T.flat_in)
        g.eq(f"{name}.logpdf(v, *params) == log density of the documented TFP object with the documented parameter names", T.outs, Rf.outs)
        g.ok(f"{name}.logpdf: shape and dtype of the documented density", sj.obj(T.flat_out[0]).shape == sj.obj(Rf.flat_out[0]).shape and
             T.closed.out_avals[0].dtype == Rf.closed.out_avals[0].dtype)
        # teeth: swapping the first two parameters (where there are two of the same shape) must be refuted
        if len(params) >= 2 and np.shape(params[0]) == np.shape(params[1]) and name not in ("uniform",):
            sw = [T.flat_in[0], T.flat_in[2], T.flat_in[1]] + list(T.flat_in[3:])
            Rs = sj.sym_trace(lambda v, *ps: ctor(tfd, *ps).log_prob(v), value, *params, sym_in=sw)
            g.fault_twin("swapped-parameters", solve.eq_trees(T.outs, Rs.outs))
        return
    if kind == "closed" and name in ("uniform",):
        T = g.try_trace(f"{name}.logpdf traces", lambda v, *ps: D.logpdf(v, *ps), value, *params, logmode=True)
        if T is None:
            return
        v = sj.unlog(sj.obj(T.flat_in[0]).item())
        ps = [sj.unlog(sj.obj(p).item()) for p in T.flat_in[1:]]
        A_ = support_assumptions(name, T.flat_in[0], T.flat_in[1:])
        out = sj.obj(T.flat_out[0]).item()
        got = out.P if isinstance(out, sj.LogV) else sj.s_exp(out)
        if name == "uniform":
            want = 1 / (ps[1] - ps[0])
        else:
            d = v - ps[0]
            want = sj.s_exp(sj.s_neg(sj.s_div(z3.If(d >= 0, d, -d), ps[1]))) / (2 * ps[1])
        g.holds(f"{name}.logpdf == hand-written log density of the documented parameterisation (log-domain)", got == want, A_)
        return
    if kind == "closed":
        T = g.try_trace(f"{name}.logpdf traces", lambda v, *ps: D.logpdf(v, *ps), value, *params)
        if T is None:
            return
        v = sj.unlog(sj.obj(T.flat_in[0]).item())
        ps = [sj.unlog(sj.obj(p).item()) for p in T.flat_in[1:]]
        want = closed_forms()[name](v, *ps)
        A_ = support_assumptions(name, T.flat_in[0], T.flat_in[1:])
        g.eq(f"{name}.logpdf == hand-written log density of the documented parameterisation", T.outs, sj.obj(want), A_, tol=sj.RV(1e-5))
        return
    if kind == "sampler":
        return sampler(g, name, D, ctor, params, value, tfd)


# families whose TFP sampler contains a gamma rejection loop: the loop is abstracted as an uninterpreted function keyed by
# the loop's IR text, and the two tracings (through genjax's staging vs. direct) do not yield textually identical loop IR,
# so IR equality is not attempted there; shape/dtype and key provenance are still checked
REJECTION = {"beta", "binomial", "chi2", "dirichlet", "gamma", "inverse_gamma", "multinomial", "negative_binomial", "student_t"}


def sampler(g, name, D, ctor, params, value, tfd):
    from genjax import seed, modular_vmap
    from .. import keys
    fam = rs.Family(name, name, ctor, None, None, None, None)
    configs = [("scalar", lambda k, *ps: seed(lambda *q: D.sample(*q))(k, *ps), params, ()),
               ("sample_shape=(2,)", lambda k, *ps: seed(lambda *q: D.sample(*q, sample_shape=(2,)))(k, *ps), params, (2,))]
    bparams = [np.stack([p, p]) for p in params]
    configs.append(("modular_vmap batch 2", lambda k, *ps: seed(modular_vmap(lambda *q: D.sample(*q), in_axes=0))(k, *ps), bparams, None))
    for tag, fn, ps, S in configs:
        T = g.try_trace(f"{name}.sample [{tag}] under seed traces", fn, jax.random.key(0), *ps)
        if T is None:
            continue
        T.no_validate = True
        key0 = T.flat_in[0].item()
        sub = sj.Key.Split(key0, sj.IV(1))
        pav = [jax.ShapeDtypeStruct(np.shape(p), np.asarray(p).dtype) for p in ps]
        kw = {} if S is None else {"sample_shape": S}
        try:
            ref_closed = jax.make_jaxpr(lambda k, *q: ctor(tfd, *q).sample(seed=k, **kw))(jax.random.key(0), *pav)
            ctx = sj.Ctx()
            (ref,) = sj.eval_jaxpr(ctx, ref_closed.jaxpr, ref_closed.consts, sj.obj(sub), *T.flat_in[1:])
        except sj.Unsupported as e:
            g._rec(f"{name}.sample [{tag}]: reference sampler", "inconclusive", detail=str(e))
            continue
        if name in REJECTION:
            bits = [c for c in T.ctx.consumed if c[0] == "bits"]
            g.ok(f"{name}.sample [{tag}]: all randomness derives from the site's own sub-key", bool(bits) and all(
                keys.derives_from(c[1], sub) and not keys.has_const_key(c[1]) for c in bits))
        else:
            r = g.eq(f"{name}.sample [{tag}] == documented TFP sampler of the documented object on the site's own sub-key", T.flat_out[0], ref)
            if r is not None and r["verdict"] == "inconclusive" and "sat" in str(r.get("detail", "")):
                # the solver found the two sampler terms different; key-typed inputs cannot be replayed through the numeric
                # evaluator, so replay concretely: the real seeded sampler against the documented TFP sampler on the same sub-key
                try:
                    diffs = []
                    for kseed in (0, 7, 12345):
                        k = jax.random.key(kseed)
                        real = np.asarray(fn(k, *[jnp.asarray(p) for p in ps]))
                        want = np.asarray(ctor(tfd, *[jnp.asarray(p) for p in ps]).sample(seed=jax.random.split(k)[1], **kw))
                        if real.shape != want.shape or not np.allclose(real.astype(np.float64), want.astype(np.float64), rtol=1e-5, atol=1e-6):
                            diffs.append((kseed, real.tolist(), want.tolist()))
                    if diffs:
                        r["verdict"] = "violation"
                        r["replay_kind"] = "structural"
                        r["detail"] = (f"solver: sampler terms differ; concrete replay on the real code: key {diffs[0][0]}: "
                                       f"seeded sample {diffs[0][1]} vs documented TFP sampler on the site's sub-key {diffs[0][2]}")
                except Exception as e:
                    r["detail"] = str(r.get("detail", "")) + f"; concrete replay failed: {type(e).__name__}: {e}"
        g.ok(f"{name}.sample [{tag}]: documented shape and dtype", tuple(T.closed.out_avals[0].shape) == tuple(ref_closed.out_avals[0].shape)
             and T.closed.out_avals[0].dtype == ref_closed.out_avals[0].dtype,
             f"{T.closed.out_avals[0]} vs {ref_closed.out_avals[0]}")
        if name == "flip":
            g.ok("flip yields booleans", T.closed.out_avals[0].dtype == jnp.bool_)
        if tag.startswith("modular_vmap"):
            out = sj.obj(T.flat_out[0])
            g.ok(f"{name}.sample [{tag}]: the two lanes are different terms (one draw per lane, not a broadcast)",
                 not all(a.eq(b) for a, b in zip(sj.terms(out[0]), sj.terms(out[1]))))


def mass(g, tag, fn, sym_in, ex):
    """P such that fn(params) == Log(P): trace at a CONCRETE outcome (log-domain mode)"""
    T = g.try_trace(tag, fn, *ex, logmode=True, sym_in=sym_in)
    if T is None:
        return None
    out = sj.obj(T.flat_out[0]).item()
    return out.P if isinstance(out, sj.LogV) else sj.s_exp(out)


def normalisation(g, name):
    import genjax
    import genjax.distributions as gd
    if name == "flip":
        p = z3.Real("p")
        ms = [mass(g, f"flip.logpdf({b}) traces", lambda q, b=b: gd.flip.logpdf(b, q), [sj.obj(p)], [f32(0.3)]) for b in (True, False)]
        if None not in ms:
            g.holds("flip: sum over {True, False} of exp(logpdf) == 1", ms[0] + ms[1] == 1, [p > 0, p < 1])
            g.holds("flip(p): P(True) == p (takes a probability)", ms[0] == p, [p > 0, p < 1])
    elif name == "bernoulli":
        p = z3.Real("p")
        ms = [mass(g, f"bernoulli.logpdf({b}) traces", lambda q, b=b: gd.bernoulli.logpdf(b, probs=q), [sj.obj(p)], [f32(0.3)]) for b in (1, 0)]
        if None not in ms:
            g.holds("bernoulli(probs): sum over {0, 1} of exp(logpmf) == 1", ms[0] + ms[1] == 1, [p > 0, p < 1])
    elif name.startswith("categorical"):
        K = int(name[-1])
        Ps = [z3.Real(f"P{i}") for i in range(K)]
        lg = np.array([sj.LogV(x) for x in Ps], dtype=object)
        ms = [mass(g, f"categorical.logpdf({k}) traces", lambda q, k=k: gd.categorical.logpdf(k, q), [lg], [jnp.zeros(K)]) for k in range(K)]
        if None not in ms:
            A_ = [x > 0 for x in Ps]
            g.holds(f"categorical(logits), K={K}: sum over categories of exp(logpmf) == 1", sum(ms) == 1, A_)
            for k in range(K):
                g.holds(f"categorical(logits), K={K}: P(v={k}) == exp(logits[{k}]) / sum exp(logits)  (takes logits)", ms[k] == Ps[k] / sum(Ps), A_)
    elif name == "binomial":
        for n in (1, 2, 3):
            p = z3.Real("p")
            ms = [mass(g, f"binomial.logpdf({k}; n={n}) traces", lambda q, k=k: gd.binomial.logpdf(f32(k), f32(n), probs=q), [sj.obj(p)], [f32(0.3)])
                  for k in range(n + 1)]
            if None not in ms:
                g.holds(f"binomial(n={n}, probs): sum over 0..n of exp(logpmf) == 1", sum(ms) == 1, [p > 0, p < 1])
                g.holds(f"binomial(n={n}, probs): P(k=n) == p^n", ms[n] == math.prod([p] * n), [p > 0, p < 1])


def closed_special(g, name):
    import genjax.distributions as gd
    if name == "categorical":
        return
    # geometric(probs p): pmf(k) = (1-p)^k p, k = number of failures before the first success
    p = z3.Real("p")
    for kk in (0, 1, 2, 3):
        m = mass(g, f"geometric.logpdf({kk}) traces", lambda q, kk=kk: gd.geometric.logpdf(f32(kk), probs=q), [sj.obj(p)], [f32(0.3)])
        if m is None:
            continue
        want = p
        for _ in range(kk):
            want = want * (1 - p)
        g.holds(f"geometric: P(k={kk}) == (1-p)^{kk} p  (k counts failures before the first success)", m == want, [p > 0, p < 1])


def user_wrapped(g, name):
    from genjax import seed
    from genjax.core import tfp_distribution, distribution
    from genjax.pjax import wrap_sampler, wrap_logpdf
    from tensorflow_probability.substrates import jax as tfp
    tfd = tfp.distributions
    if name == "tfp_distribution":
        D = tfp_distribution(lambda m, s: tfd.Logistic(loc=m, scale=s), name="Logistic")
        ctor = lambda tfd_, m, s: tfd_.Logistic(loc=m, scale=s)
    elif name == "tfp_distribution_same_name":
        # a user distribution that re-uses the NAME of a built-in with another parameterisation (mean, variance):
        # sampler and density must both be the user's object, not whatever was registered under that name before
        D = tfp_distribution(lambda m, v: tfd.Normal(loc=m, scale=v * 0.5), name="Normal")
        ctor = lambda tfd_, m, v: tfd_.Normal(loc=m, scale=v * 0.5)
    else:
        def ks(key, m, s, sample_shape=()):
            return tfd.Gumbel(m, s).sample(seed=key, sample_shape=sample_shape)
        D = distribution(wrap_sampler(ks, name="Gumbel"), wrap_logpdf(lambda v, m, s: tfd.Gumbel(m, s).log_prob(v)), name="Gumbel")
        ctor = lambda tfd_, m, s: tfd_.Gumbel(m, s)
    params, value = [f32(0.3), f32(1.5)], f32(0.2)
    T = g.try_trace(f"user-wrapped {name}: logpdf traces", lambda v, *ps: D.logpdf(v, *ps), value, *params)
    if T is not None:
        Rf = sj.sym_trace(lambda v, *ps: ctor(tfd, *ps).log_prob(v), value, *params, sym_in=T.flat_in)
        g.eq(f"user-wrapped {name}: logpdf == the wrapped object's log density", T.outs, Rf.outs)
    sampler(g, f"user_{name}", D, ctor, params, value, tfd)
