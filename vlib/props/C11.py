"""C11: ADEV value and gradient estimators are unbiased (exact for enumeration)."""
from __future__ import annotations

import itertools

import numpy as np
import z3

import jax
import jax.numpy as jnp

from .. import symjax as sj, solve, gfi

FUNCTIONS = ["ADEV.eval_jaxpr_adev (CPS interpreter)", "ADEV.forward_mode", "Expectation.estimate/jvp_estimate/grad_estimate", "invoke_closed_over(_jvp)",
             "FlipEnum", "FlipEnumParallel", "CategoricalEnumParallel", "FlipMVD", "REINFORCE", "_flip_lane_rb_estimate", "NormalREPARAM", "UniformREPARAM",
             "MultivariateNormalDiagREPARAM", "seed / modular_vmap of ADEV programs"]
BOUNDS = {"programs": "<= 3 sites per program, batch <= 2, categorical K = 3; cond in the continuation; reparameterised sites with broadcast (scalar vs vector) parameters and non-additive objectives",
          "values": "all parameter values, tangent directions and site outcomes"}
ASSUMPTIONS = ["continuous score-function sites (normal_reinforce, ...) and geometric_reinforce: 'averages to the exact derivative' is an integral / infinite sum; the structural form f*(d log p) + df is what is decided",
               "site laws trust TFP's sampling contract"]
EXPLANATION = "estimators traced unseeded: outputs are terms in (theta, tangent, outcomes); enumeration: equal to the exact expectation/derivative and outcome-free; reparameterised: pathwise derivative for the drawn noise; discrete score-function/MVD: probability-weighted sum over outcomes equals the exact derivative"

f32 = np.float32


def groups(tier, seed):
    return ["flip_enum", "flip_enum_parallel", "categorical_enum_parallel", "flip_mvd", "flip_reinforce", "normal_reparam", "uniform_reparam",
            "normal_reparam_bcast", "normal_reparam_bcast2", "uniform_reparam_bcast",
            "mvn_diag_reparam", "normal_reinforce", "compose_enum_reparam", "compose_reinforce_enum", "flip_enum_batched", "flip_mvd_batched",
            "cond_continuation", "seed_jit:flip_enum", "seed_jit:normal_reparam", "mvmap:flip_enum"]


def fb(b, th):
    """continuation used for the Bernoulli programs: depends on the outcome and on theta"""
    return jnp.where(b, th * 3.0, th * th - 1.0)


def jvp_of(E, th, dth):
    from genjax.adev import Dual
    d = E.jvp_estimate(Dual(th, dth))
    return d.primal, d.tangent


def site_vars(T, name=None):
    return [s for s in T.sites if name is None or (s.name or "").lower() == name or name in str(s.inner.get("adev_prim", "")).lower()]


def subst(t, pairs):
    return z3.simplify(z3.substitute(sj.unlog(t), *pairs))


def uses_outcomes(T, out):
    names = set()
    for s in T.sites:
        for o in s.outs:
            names |= {str(x) for x in sj.terms(o)}
    fv = set(sj.free_vars(sj.terms(out)).keys())
    return sorted(fv & names)


def run_group(g, gid):
    from genjax import adev
    from genjax.adev import expectation, Dual
    kind, _, arg = gid.partition(":")
    g.programs.add(gid)
    th0, d0 = f32(0.3), f32(1.0)
    dom = lambda th: [th > 0, th < 1]

    if kind in ("flip_enum", "flip_enum_parallel", "flip_mvd", "flip_reinforce", "cond_continuation"):
        prim = {"flip_enum": adev.flip_enum, "flip_enum_parallel": adev.flip_enum_parallel, "flip_mvd": adev.flip_mvd,
                "flip_reinforce": adev.flip_reinforce, "cond_continuation": adev.flip_enum}[kind]
        if kind == "cond_continuation":
            cont = lambda b, th: jax.lax.cond(b, lambda t: t * 3.0, lambda t: t * t - 1.0, th)
        else:
            cont = fb

        @expectation
        def E(th):
            b = prim(th)
            return cont(b, th)
        T = g.try_trace(f"{kind}: jvp_estimate traces", lambda th, dth: jvp_of(E, th, dth), th0, d0)
        if T is None:
            return
        th, dth = [sj.unlog(sj.obj(x).item()) for x in T.ins]
        primal, tangent = [sj.obj(x).item() for x in T.outs]
        exact = th * (th * 3) + (1 - th) * (th * th - 1)
        dexact = (th * 3 + th * 3 + (1 - th) * 2 * th - (th * th - 1)) * dth
        if kind in ("flip_enum", "flip_enum_parallel", "cond_continuation"):
            g.holds(f"{kind}: estimate primal == exact expectation", sj.unlog(primal) == exact, dom(th))
            g.holds(f"{kind}: tangent == exact derivative of the expectation", sj.unlog(tangent) == dexact, dom(th))
            dep = uses_outcomes(T, [primal, tangent])
            g.ok(f"{kind}: zero variance (value and tangent do not depend on any outcome)", not dep, str(dep))
        else:
            sites = [s for s in T.sites if s.outs and sj.kind_of(s.eqn.outvars[0].aval.dtype) == "b"]
            g.ok(f"{kind}: one Bernoulli site", len(sites) == 1, str([(s.name, s.prim_name) for s in T.sites]))
            if len(sites) != 1:
                return
            b = sj.obj(sites[0].outs[0]).item()
            sa, _ = gfi._site_args(sites[0])
            g.holds(f"{kind}: the site is flip(theta)", sj.unlog(sj.obj(sa[0]).item()) == th)
            pT = [subst(primal, [(b, z3.BoolVal(True))]), subst(primal, [(b, z3.BoolVal(False))])]
            tT = [subst(tangent, [(b, z3.BoolVal(True))]), subst(tangent, [(b, z3.BoolVal(False))])]
            g.holds(f"{kind}: sum over outcomes p(b) * primal(b) == exact expectation", th * pT[0] + (1 - th) * pT[1] == exact, dom(th))
            g.holds(f"{kind}: sum over outcomes p(b) * tangent(b) == exact derivative (unbiased)", th * tT[0] + (1 - th) * tT[1] == dexact, dom(th))
            g.fault_twin("tangent-without-score-term", th * tT[0] + (1 - th) * tT[1] == (th * 3 + (1 - th) * 2 * th) * dth, dom(th))
        Tg = g.try_trace(f"{kind}: grad_estimate traces", lambda t_: E.grad_estimate(t_), th0, sym_in=[T.flat_in[0]])
        if Tg is not None and kind in ("flip_enum", "flip_enum_parallel", "cond_continuation"):
            g.holds(f"{kind}: grad_estimate == exact gradient", sj.unlog(sj.obj(Tg.outs).item()) == z3.substitute(dexact, (dth, sj.RV(1))), dom(th))
        Te = g.try_trace(f"{kind}: estimate traces", lambda t_: E.estimate(t_), th0, sym_in=[T.flat_in[0]])
        if Te is not None and kind in ("flip_enum", "flip_enum_parallel", "cond_continuation"):
            g.holds(f"{kind}: estimate == exact expectation", sj.unlog(sj.obj(Te.outs).item()) == exact, dom(th))
        return

    if kind == "categorical_enum_parallel":
        vals = jnp.array([1.0, 2.0, 4.0])

        @expectation
        def E(lg):
            k = adev.categorical_enum_parallel(lg)
            return vals[k] * lg[0] + k.astype(jnp.float32)
        lg0 = np.asarray([0.1, 0.2, -0.3], dtype=np.float32)
        Ps = [z3.Real(f"P{i}") for i in range(3)]
        T = g.try_trace("categorical_enum_parallel: jvp_estimate traces",
                        lambda lg, dlg: (lambda d: (d.primal, d.tangent))(E.jvp_estimate(Dual(lg, dlg))), lg0, np.ones(3, np.float32))
        if T is None:
            return
        # reference: exact softmax-weighted sum and its jvp, written directly
        def ref(lg, dlg):
            def ex(l):
                p = jax.nn.softmax(l)
                return jnp.sum(p * (vals * l[0] + jnp.arange(3.0)))
            return jax.jvp(ex, (lg,), (dlg,))
        R = sj.sym_trace(ref, lg0, np.ones(3, np.float32), sym_in=T.flat_in)
        g.eq("categorical_enum_parallel: primal == exact expectation", T.outs[0], R.outs[0])
        g.eq("categorical_enum_parallel: tangent == exact derivative", T.outs[1], R.outs[1])
        g.ok("categorical_enum_parallel: zero variance", not uses_outcomes(T, list(T.outs)))
        return

    if kind in ("normal_reparam", "uniform_reparam", "mvn_diag_reparam", "normal_reparam_bcast", "normal_reparam_bcast2", "uniform_reparam_bcast"):
        eshape = ()
        if kind == "normal_reparam_bcast":
            # scalar location, vector scale: one INDEPENDENT noise per component of the broadcast shape
            def prog(th):
                x = adev.normal_reparam(th[0], th[1:3])
                return x[0] * x[1] + (x[0] + x[1]) ** 2 * th[0]
            def pure(eps, th):
                x = th[0] + th[1:3] * eps
                return x[0] * x[1] + (x[0] + x[1]) ** 2 * th[0]
            ex = np.asarray([0.3, 1.5, 0.5], dtype=np.float32)
            eshape = (2,)
        elif kind == "normal_reparam_bcast2":
            def prog(th):
                x = adev.normal_reparam(th[0:2], th[2])
                return x[0] * x[1] + jnp.sin(x[0])
            def pure(eps, th):
                x = th[0:2] + th[2] * eps
                return x[0] * x[1] + jnp.sin(x[0])
            ex = np.asarray([0.3, -0.2, 1.5], dtype=np.float32)
            eshape = (2,)
        elif kind == "uniform_reparam_bcast":
            def prog(th):
                x = adev.uniform_reparam(th[0], th[0] + th[1:3])
                return x[0] * x[1] + th[1] * x[0]
            def pure(u, th):
                x = th[0] + th[1:3] * u
                return x[0] * x[1] + th[1] * x[0]
            ex = np.asarray([0.3, 1.5, 0.5], dtype=np.float32)
            eshape = (2,)
        elif kind == "normal_reparam":
            def prog(th):
                x = adev.normal_reparam(th[0] * 2.0, th[1])
                return x * x * th[0] + jnp.sin(x)
            def pure(eps, th):
                x = th[0] * 2.0 + th[1] * eps
                return x * x * th[0] + jnp.sin(x)
            ex = np.asarray([0.3, 1.5], dtype=np.float32)
        elif kind == "uniform_reparam":
            def prog(th):
                x = adev.uniform_reparam(th[0], th[0] + th[1])
                return x * x + th[1] * x
            def pure(u, th):
                x = th[0] + th[1] * u
                return x * x + th[1] * x
            ex = np.asarray([0.3, 1.5], dtype=np.float32)
        else:
            def prog(th):
                x = adev.multivariate_normal_diag_reparam(th[:2], th[2:])
                return jnp.sum(x * x) + x[0] * th[3] + x[0] * x[1]
            def pure(eps, th):
                x = th[:2] + th[2:] * eps
                return jnp.sum(x * x) + x[0] * th[3] + x[0] * x[1]
            ex = np.asarray([0.3, -0.2, 1.5, 0.5], dtype=np.float32)
            eshape = (2,)
        E = expectation(prog)
        T = g.try_trace(f"{kind}: jvp_estimate traces", lambda th, dth: (lambda d: (d.primal, d.tangent))(E.jvp_estimate(Dual(th, dth))),
                        ex, np.ones_like(ex))
        if T is None:
            return
        g.ok(f"{kind}: exactly one noise site", len(T.sites) == 1, str([(s.name, s.prim_name) for s in T.sites]))
        if len(T.sites) != 1:
            return
        site = T.sites[0]
        noise = site.outs[0]
        sa, _ = gfi._site_args(site)
        base = "uniform(0,1)" if kind.startswith("uniform_reparam") else "normal(0,1)"
        lo, hi = (0, 1)
        g.ok(f"{kind}: one independent noise per component of the (broadcast) value: noise shape {eshape}",
             tuple(sj.obj(noise).shape) == eshape, f"noise shape {tuple(sj.obj(noise).shape)}")
        if tuple(sj.obj(noise).shape) != eshape:
            return
        g.holds(f"{kind}: the noise is a draw from {base} of the event shape, independent of theta",
                z3.And(*[x == lo for x in sj.terms(sa[0])] + [x == hi for x in sj.terms(sa[1])]))
        R = sj.sym_trace(lambda n, th, dth: jax.jvp(lambda t: pure(n, t), (th,), (dth,)), np.zeros(sj.obj(noise).shape, np.float32), ex, np.ones_like(ex),
                         sym_in=[noise] + list(T.flat_in))
        g.eq(f"{kind}: primal == f(g(noise; theta), theta)", T.outs[0], R.outs[0])
        g.eq(f"{kind}: tangent == pathwise derivative d/dtheta f(g(noise; theta), theta) for the noise actually drawn", T.outs[1], R.outs[1])
        return

    if kind == "normal_reinforce":
        def prog(th):
            x = adev.normal_reinforce(th[0], th[1])
            return x * x * th[0]
        ex = np.asarray([0.3, 1.5], dtype=np.float32)
        E = expectation(prog)
        T = g.try_trace("normal_reinforce: jvp_estimate traces", lambda th, dth: (lambda d: (d.primal, d.tangent))(E.jvp_estimate(Dual(th, dth))),
                        ex, np.ones_like(ex))
        if T is None:
            return
        g.ok("normal_reinforce: one site", len(T.sites) == 1)
        site = T.sites[0]
        x = site.outs[0]
        from tensorflow_probability.substrates import jax as tfp

        def ref(xv, th, dth):
            f = lambda t: xv * xv * t[0]
            fv, df = jax.jvp(f, (th,), (dth,))
            _, dlp = jax.jvp(lambda t: tfp.distributions.Normal(t[0], t[1]).log_prob(xv), (th,), (dth,))
            return fv, df + fv * dlp
        R = sj.sym_trace(ref, f32(0.0), ex, np.ones_like(ex), sym_in=[x] + list(T.flat_in))
        sa, _ = gfi._site_args(site)
        th = T.flat_in[0]
        g.holds("normal_reinforce: the site is normal(theta0, theta1)", z3.And(sj.unlog(sj.obj(sa[0]).item()) == sj.unlog(th[0]), sj.unlog(sj.obj(sa[1]).item()) == sj.unlog(th[1])))
        g.eq("normal_reinforce: primal == f(x)", T.outs[0], R.outs[0])
        g.eq("normal_reinforce: tangent == f(x) * d/dtheta log p(x; theta) + d/dtheta f (score-function form)", T.outs[1], R.outs[1],
             [sj.unlog(th[1]) > 0])
        return

    if kind == "compose_enum_reparam":
        def prog(th):
            b = adev.flip_enum(th[0])
            x = adev.normal_reparam(jnp.where(b, th[1], -th[1]), 1.0)
            return x * x + jnp.where(b, 1.0, 0.0) * th[0]
        ex = np.asarray([0.3, 1.5], dtype=np.float32)
        E = expectation(prog)
        T = g.try_trace("flip_enum then normal_reparam: jvp_estimate traces", lambda th, dth: (lambda d: (d.primal, d.tangent))(E.jvp_estimate(Dual(th, dth))),
                        ex, np.ones_like(ex))
        if T is None:
            return
        eps = [s.outs[0] for s in T.sites]
        g.ok("flip_enum then normal_reparam: one noise draw per enumerated branch, no Bernoulli draw", len(eps) == 2 and all(
            sj.kind_of(s.eqn.outvars[0].aval.dtype) == "f" for s in T.sites), str([(s.name, s.prim_name) for s in T.sites]))
        if len(eps) != 2:
            return

        def ref(eT, eF, th, dth):
            def ex_(t):
                xT = t[1] + eT
                xF = -t[1] + eF
                return t[0] * (xT * xT + t[0]) + (1 - t[0]) * (xF * xF)
            return jax.jvp(ex_, (th,), (dth,))
        R = sj.sym_trace(ref, f32(0), f32(0), ex, np.ones_like(ex), sym_in=[eps[0], eps[1]] + list(T.flat_in))
        g.eq("flip_enum then normal_reparam: primal == exact over b, pathwise in x", T.outs[0], R.outs[0])
        g.eq("flip_enum then normal_reparam: tangent == derivative of that (enumeration composed with reparameterisation)", T.outs[1], R.outs[1])
        return

    if kind == "compose_reinforce_enum":
        def prog(th):
            a = adev.flip_reinforce(th[0])
            b = adev.flip_enum(jnp.where(a, th[1], th[1] * 0.5))
            return jnp.where(b, th[0] * 2.0, 1.0) + jnp.where(a, th[1], 0.0)
        ex = np.asarray([0.3, 0.6], dtype=np.float32)
        E = expectation(prog)
        T = g.try_trace("flip_reinforce then flip_enum: jvp_estimate traces", lambda th, dth: (lambda d: (d.primal, d.tangent))(E.jvp_estimate(Dual(th, dth))),
                        ex, np.ones_like(ex))
        if T is None:
            return
        bs = [s for s in T.sites if sj.kind_of(s.eqn.outvars[0].aval.dtype) == "b"]
        g.ok("flip_reinforce then flip_enum: only the score-function site draws", len(bs) == 1, str([(s.name, s.prim_name) for s in T.sites]))
        if len(bs) != 1:
            return
        a = sj.obj(bs[0].outs[0]).item()
        th = [sj.unlog(x) for x in T.flat_in[0]]
        dth = [sj.unlog(x) for x in T.flat_in[1]]
        tangent = sj.obj(T.outs[1]).item()
        tA = [subst(tangent, [(a, z3.BoolVal(v))]) for v in (True, False)]
        # exact: E = p0 * [q*2p0 + (1-q) + t1] + (1-p0) * [q/2 * 2p0 + (1 - q/2)]   with p0 = th0, q = th1
        p0, q = th
        Ex = lambda p0_, q_: p0_ * (q_ * 2 * p0_ + (1 - q_) + q_) + (1 - p0_) * ((q_ / 2) * 2 * p0_ + (1 - q_ / 2))
        dE = ((Ex(p0 + 0, q) - 0))  # placeholder to keep structure
        # derivative by hand
        dE_dp0 = (q * 2 * p0 + (1 - q) + q) + p0 * (2 * q) - ((q / 2) * 2 * p0 + (1 - q / 2)) + (1 - p0) * q
        dE_dq = p0 * (2 * p0 - 1 + 1) + (1 - p0) * (p0 - sj.RV(0.5))
        g.holds("flip_reinforce then flip_enum: sum over outcomes of the score-function site p(a) * tangent(a) == exact derivative",
                p0 * tA[0] + (1 - p0) * tA[1] == dE_dp0 * dth[0] + dE_dq * dth[1], [p0 > 0, p0 < 1, q > 0, q < 1])
        return

    if kind in ("flip_enum_batched", "flip_mvd_batched"):
        prim = adev.flip_enum if kind == "flip_enum_batched" else adev.flip_mvd

        def prog(th):
            b = prim(th)
            return jnp.where(b[0], th[0] * 3.0, 1.0) * jnp.where(b[1], 2.0, th[1])
        ex = np.asarray([0.3, 0.6], dtype=np.float32)
        E = expectation(prog)
        T = g.try_trace(f"{kind}: jvp_estimate traces", lambda th, dth: (lambda d: (d.primal, d.tangent))(E.jvp_estimate(Dual(th, dth))), ex, np.ones_like(ex))
        if T is None:
            return
        bs = [s for s in T.sites if sj.kind_of(s.eqn.outvars[0].aval.dtype) == "b"]
        g.ok(f"{kind}: one batched Bernoulli site", len(bs) == 1 and sj.obj(bs[0].outs[0]).shape == (2,), str([(s.name, sj.obj(s.outs[0]).shape) for s in T.sites]))
        if len(bs) != 1:
            return
        b = sj.obj(bs[0].outs[0])
        th = [sj.unlog(x) for x in T.flat_in[0]]
        dth = [sj.unlog(x) for x in T.flat_in[1]]
        tangent, primal = sj.obj(T.outs[1]).item(), sj.obj(T.outs[0]).item()
        tot_t, tot_p = 0, 0
        for v0, v1 in itertools.product([True, False], repeat=2):
            pr = (th[0] if v0 else 1 - th[0]) * (th[1] if v1 else 1 - th[1])
            pairs = [(b[0], z3.BoolVal(v0)), (b[1], z3.BoolVal(v1))]
            tot_t = tot_t + pr * subst(tangent, pairs)
            tot_p = tot_p + pr * subst(primal, pairs)
        A0 = (th[0] * th[0] * 3 + (1 - th[0]))
        A1 = (th[1] * 2 + (1 - th[1]) * th[1])
        dA0 = (6 * th[0] - 1) * dth[0]
        dA1 = (2 + 1 - 2 * th[1]) * dth[1]
        D = [th[0] > 0, th[0] < 1, th[1] > 0, th[1] < 1]
        g.holds(f"{kind}: sum over the 4 outcomes p(b) * primal(b) == exact expectation", tot_p == A0 * A1, D)
        g.holds(f"{kind}: sum over the 4 outcomes p(b) * tangent(b) == exact derivative (lane-wise Rao-Blackwellised estimator is unbiased)",
                tot_t == dA0 * A1 + A0 * dA1, D)
        return

    if kind == "seed_jit":
        from genjax import seed
        if arg == "flip_enum":
            @expectation
            def E(th):
                b = adev.flip_enum(th)
                return fb(b, th)
            T = g.try_trace("jit(seed(jvp_estimate)) of a flip_enum program traces",
                            lambda k, th, dth: jax.jit(seed(lambda a, b: jvp_of(E, a, b)))(k, th, dth), jax.random.key(0), th0, d0)
            if T is None:
                return
            T.no_validate = True
            th, dth = [sj.unlog(sj.obj(x).item()) for x in T.ins[1:]]
            exact = th * (th * 3) + (1 - th) * (th * th - 1)
            dexact = (th * 3 + th * 3 + (1 - th) * 2 * th - (th * th - 1)) * dth
            g.holds("flip_enum under jit(seed(.)): still the exact expectation", sj.unlog(sj.obj(T.outs[0]).item()) == exact, dom(th))
            g.holds("flip_enum under jit(seed(.)): still the exact derivative", sj.unlog(sj.obj(T.outs[1]).item()) == dexact, dom(th))
            g.ok("flip_enum under seed: no sampling site survives", len(T.sites) == 0)
        else:
            def prog(th):
                x = adev.normal_reparam(th[0] * 2.0, th[1])
                return x * x * th[0]
            E = expectation(prog)
            ex = np.asarray([0.3, 1.5], dtype=np.float32)
            T = g.try_trace("seed(grad_estimate) of a normal_reparam program traces", lambda k, th: seed(lambda a: E.grad_estimate(a))(k, th), jax.random.key(0), ex)
            if T is None:
                return
            T.no_validate = True
            g.ok("normal_reparam under seed: no sampling site survives", len(T.sites) == 0)
            from .. import keys
            key0 = T.flat_in[0].item()
            bits = [c for c in T.ctx.consumed if c[0] == "bits"]
            g.ok("normal_reparam under seed: the noise derives from the key argument", bool(bits) and all(keys.derives_from(c[1], key0) and not keys.has_const_key(c[1]) for c in bits))
            # the seeded gradient equals the unseeded pathwise gradient with eps := the seeded noise term
            U = g.try_trace("grad_estimate (unseeded) traces", lambda th: E.grad_estimate(th), ex, sym_in=[T.flat_in[1]])
            if U is not None and len(U.sites) == 1:
                eps = sj.obj(U.sites[0].outs[0]).item()
                # find the noise term in the seeded output: solve by substitution with a fresh variable is not possible; compare shapes of dependence instead
                g.ok("normal_reparam: unseeded gradient depends on exactly one noise variable", len(uses_outcomes(U, [U.outs])) == 1)
        return

    if kind == "mvmap":
        from genjax import modular_vmap

        @expectation
        def E(th):
            b = adev.flip_enum(th)
            return fb(b, th)
        ths = np.asarray([0.3, 0.6], dtype=np.float32)
        T = g.try_trace("modular_vmap(grad_estimate) of a flip_enum program traces", lambda t: modular_vmap(lambda a: E.grad_estimate(a), in_axes=0)(t), ths)
        if T is None:
            return
        out = sj.obj(T.outs)
        for i in range(2):
            th = sj.unlog(T.flat_in[0][i])
            dexact = (th * 3 + th * 3 + (1 - th) * 2 * th - (th * th - 1))
            g.holds(f"flip_enum under modular_vmap: lane {i} gradient is the exact derivative at theta[{i}]", sj.unlog(out[i]) == dexact, dom(th))
