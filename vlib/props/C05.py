"""C05: traces stay coherent under any history of edits and inference moves.

Histories of any length are covered by induction: every operation is shown (C03, C04, C09, C12 and the
obligations below) to map an arbitrary coherent trace to a coherent trace.  This module adds the
operations not covered elsewhere (indexing of vectorised traces, jit round trips), and, as a cross-check
that does not depend on the invariant generator, explicit compositions of 2-3 operations traced as one IR
from a symbolic coherent start (telescoping weights, untouched observed addresses)."""
from __future__ import annotations

import numpy as np
import z3

import jax
import jax.numpy as jnp

from .. import symjax as sj, refsem as rs, corpus, gfi, solve, selspec
from .C03 import coherent_pre

FUNCTIONS = ["Tr/ScanTr/CondTr pytree flatten/unflatten", "Update/Regenerate handlers", "mh/mala", "resample_vectorized_trace", "Trace.get_*"]
BOUNDS = {"histories": "arbitrary length by induction over (update, regenerate, mh, mala, hmc, indexing, resampling, jit round trip); explicit compositions of length 2-3",
          "programs": "corpus", "pre-state": "arbitrary coherent trace",
          "inductive steps re-run here": "update on top_scan/scanned/top_vmap/branching, regenerate on scanned/top_cond, mh and mala, resample (both methods, N=2); the full sets are C03, C04, C09, C12"}
ASSUMPTIONS = ["inductive steps for update/regenerate/kernels/resampling are the 'result is coherent' obligations of C03, C04, C09, C12 (re-run here on a subset)"]
EXPLANATION = "inductive invariant 'coherent trace' + explicit short compositions"

COMPOSE = ["two_normals", "nested", "vmapped", "scanned", "branching", "kw"]


def groups(tier, seed):
    gs = [f"compose:{n}" for n in COMPOSE] + [f"telescope:{n}" for n in COMPOSE]
    gs += [f"jit:{c.name}" for c in corpus.cases(tier)]
    gs += ["index:vmapped", "index:top_vmap", "index:top_scan"]
    # the inductive steps themselves, on the combinators whose traces carry the most bookkeeping (the full sets are the
    # C03 / C04 / C09 / C12 checks): every operation maps a coherent trace to a coherent trace
    gs += [f"step:{m}:{g_}" for m, g_ in INDUCTIVE_STEPS]
    return gs


INDUCTIVE_STEPS = [("C03", "update:top_scan"), ("C03", "update:scanned"), ("C03", "update:top_vmap"), ("C03", "update:branching"),
                   ("C04", "regenerate:scanned"), ("C04", "regenerate:top_cond"), ("C09", "mh:scanned:a"), ("C09", "mala:two_normals:x:0.25"),
                   ("C12", "resample:categorical:2"), ("C12", "resample:systematic:2")]


def run_group(g, gid):
    kind, _, name = gid.partition(":")
    if kind == "step":
        import importlib
        mod, _, sub = name.partition(":")
        return importlib.import_module(f"vlib.props.{mod}").run_group(g, sub)
    case = corpus.get(name)
    gf = rs.to_genjax(case.prog)
    g.programs.add(case.name)
    tr0 = gfi.example_trace(gf, case.args, case.kwargs)
    cm = gfi.example_choices(gf, case.args, case.kwargs)
    paths = gfi.leaf_paths(cm)
    if kind == "jit":
        return jit_roundtrip(g, gf, tr0)
    if kind == "index":
        return indexing(g, case, gf, tr0)
    if kind == "telescope":
        return telescope(g, case, gf, tr0, cm, paths)
    return compose(g, case, gf, tr0, cm, paths)


def jit_roundtrip(g, gf, tr0):
    T = g.try_trace("jit round trip traces", lambda t: jax.jit(lambda x: x)(t), tr0)
    if T is None:
        return
    (tin,) = T.ins
    tout = T.outs
    li, tdi = jax.tree_util.tree_flatten(tin, is_leaf=rs._isarr)
    lo, tdo = jax.tree_util.tree_flatten(tout, is_leaf=rs._isarr)
    g.ok("jit round trip preserves the trace pytree structure (treedef and static fields)", tdi == tdo, f"{tdi} vs {tdo}"[:200])
    same = len(li) == len(lo) and all(sj.obj(a).shape == sj.obj(b).shape and all(x.eq(y) for x, y in zip(sj.terms(a), sj.terms(b)))
                                      for a, b in zip(li, lo))
    g.ok("jit round trip returns every leaf unchanged (same terms)", same)
    # flatten/unflatten outside jit as well
    leaves, td = jax.tree_util.tree_flatten(tr0)
    back = jax.tree_util.tree_unflatten(td, leaves)
    g.ok("tree_unflatten(tree_flatten(trace)) has the same structure", jax.tree_util.tree_structure(back) == td)


def indexing(g, case, gf, tr0):
    """leaf-wise indexing of a vectorised trace with a symbolic in-range index"""
    inner = case.prog
    if case.name == "vmapped":
        return
    def f(t, i):
        return jax.tree_util.tree_map(lambda l: l[i], t)
    # vectorised sub-trace: for top_vmap the whole trace, for top_scan the stacked step traces
    sub = tr0.traces if hasattr(tr0, "traces") else tr0
    T = g.try_trace("indexing traces", f, sub, jnp.int32(0))
    if T is None:
        return
    t_s, i_s = T.ins
    out = T.outs
    n = sj.obj(jax.tree_util.tree_leaves(t_s, is_leaf=rs._isarr)[0]).shape[0]
    i = sj.obj(i_s).item()
    callee = case.prog.callee
    c_in = rs.canon_trace(t_s)
    inv = []
    for k in range(n):
        ck = rs.index_tree(c_in, k)
        a, kw = rs.args_of_canon(ck)
        ref = rs.ref_eval(callee, rs.state_of_canon(ck), list(a), dict(kw), rs.RefCtx())
        inv.append(solve.eq_trees(ck, ref.canon()))
    co = rs.canon_trace(out)
    a, kw = rs.args_of_canon(co)
    ref = rs.ref_eval(callee, rs.state_of_canon(co), list(a), dict(kw), rs.RefCtx())
    g.eq(f"lane x[i] of a vectorised trace (all {n} lanes coherent, symbolic in-range i) is a coherent trace of the callee",
         co, ref.canon(), inv + [i >= 0, i < n])


def first_cont_path(case, paths):
    for p in paths:
        return p
    return None


def compose(g, case, gf, tr0, cm, paths):
    """update(new args) -> regenerate(first leaf) -> mh(first leaf): final trace coherent; an address never
    selected / re-constrained holds its original term; recorded args are the last ones given"""
    from genjax import state as gstate
    from genjax.inference import mh
    p0 = paths[0]
    spec = selspec.leaf_sel(p0)
    s = spec.build()

    def f(tr, args, kwargs):
        t1, w1, _ = gf.update(tr, None, *args, **kwargs)
        t2, w2, _ = gf.regenerate(t1, s, *args, **kwargs)
        t3, saved = gstate(lambda t: mh(t, s))(t2)
        return t1, t2, t3, t3.get_score(), t3.get_retval(), t3.get_choices(), saved["accept"]
    T = g.try_trace("update -> regenerate -> mh traces", f, tr0, tuple(case.args), case.kwargs)
    if T is None:
        return
    tr_s, args_s, kw_s = T.ins
    t1, t2, t3, score, retval, ch, acc = T.outs
    cs = [sj.unlog(sj.obj(acc).item())]
    pre, state, a_old, kw_old, ref_old, inv = coherent_pre(case, tr_s)
    dom = []
    for st in T.sites:
        if (st.name or "").lower() == "uniform":
            u = sj.obj(st.outs[0]).item()
            dom += [u > 0, u < 1]
    rctx = rs.RefCtx()
    ref3 = rs.ref_eval(case.prog, rs.state_of_canon(rs.canon_trace(t3)), list(args_s), kw_s, rctx)
    A = inv + dom + list(rctx.support)
    g.eq("after update -> regenerate -> mh (accepted or rejected): trace is coherent under the arguments it records",
         rs.canon_trace(t3), ref3.canon(), A, cases=cs)
    g.eq("... score == -log density of its choices, retval == program return value", (score, retval), (ref3.get_score(), ref3.get_retval()), A, cases=cs)
    g.eq("... visible choices", ch, ref3.get_choices(), A)
    old_vis = ref_old.get_choices()
    from .C04 import cond_checks
    for p in paths:
        if not spec.selected(p):
            a, b = rs.get_path(ch, p), rs.get_path(old_vis, p)
            g.eq(f"address {'/'.join(p)} (never selected or re-constrained) still holds its original value", a, b, A)


def telescope(g, case, gf, tr0, cm, paths):
    """two chained updates vs the direct one: w01 + w12 == w02 and the end states agree"""
    p0 = paths[0]
    x = rs.submap(cm, [p0])

    def f(tr, x1, a1, k1, x2, a2, k2):
        t1, w1, _ = gf.update(tr, x1, *a1, **k1)
        t2, w2, _ = gf.update(t1, x2, *a2, **k2)
        td, wd, _ = gf.update(tr, x2, *a2, **k2)
        return w1, w2, wd, t2, td
    T = g.try_trace("chained updates trace", f, tr0, x, tuple(case.args), case.kwargs, x, tuple(case.args), case.kwargs)
    if T is None:
        return
    tr_s = T.ins[0]
    w1, w2, wd, t2, td = T.outs
    pre, state, a_old, kw_old, ref_old, inv = coherent_pre(case, tr_s)
    g.eq("weights of consecutive updates telescope: w01 + w12 == w02 (direct update to the same end point)", gfi.add(w1, w2), wd, inv)
    g.eq("chained and direct update reach the same trace", rs.canon_trace(t2), rs.canon_trace(td), inv)
