"""C08: modular_vmap and Vmap are lane-wise maps, for densities and for sampling."""
from __future__ import annotations

import numpy as np
import z3

import jax
import jax.numpy as jnp

from .. import symjax as sj, refsem as rs, corpus, gfi, solve
from . import C01, C02, C03, C04

FUNCTIONS = ["modular_vmap", "ModularVmap.eval / eval_jaxpr_modular_vmap / stage_and_run (scan, cond cases)",
             "VmapBatchHandler (sample batching rule)", "LogDensityVmapHandler (log-density batching rule)", "static_dim_length",
             "Vmap.simulate/assess/generate/update/regenerate/filter", "repeat (gf.vmap(in_axes=None, axis_size=n))"]
BOUNDS = {
    "modular_vmap": "13 functions (thorough: 8 of them again on batches of 3 and 4 lanes) with sampling and density sites (scalar, vector-valued, event-shaped (categorical, multivariate normal), distribution parameters passed by keyword, "
                    "sample_shape sites, scan and cond inside, nested modular_vmap, pytree arguments) x axis specifications "
                    "{0, (0,None), (None,0), 1, -1, None + axis_size, pytree prefix, axis_size given and inferred}; batch sizes 2 and 3 "
                    "(3 chosen equal to an inner dimension where pairing errors would otherwise hide); all argument values and outcomes",
    "Vmap": "9 combinator programs (in_axes (1,None), (None,0), dict prefix, nested Vmap, axis_size + in_axes, Scan inside, Cond inside, "
            "vector-valued site with unbatched vector parameter, categorical mapped along axis 1) x all five GFI methods "
            "(generate/update: every constraint subset; regenerate: enumerated selections), in addition to the Vmap programs of C01-C04",
}
ASSUMPTIONS = ["a lane's reference run is the real un-vmapped function on that lane's slice (its sites are specified by C01/C13)",
               "TFP contract: a site with parameters of batch shape B returns sample_shape + B + event elements, element [s, b, e] ~ D(params[b])"]
EXPLANATION = ("modular_vmap(f)(args) and f(lane slice) are traced; lane i of every output equals f on lane i for all values when the lane's sites are "
               "fed element [i] of the batched sites, and element [i] of every batched site has lane i's parameters (one independent draw per lane, "
               "laid out along the mapped axis); the Vmap combinator's five GFI methods are checked against the reference semantics per lane")

# family -> ([(constructor parameter name, event rank of that parameter)] in the documented TFP positional order, event rank of a draw)
EVENT = {"normal": ([("loc", 0), ("scale", 0)], 0), "categorical": ([("logits", 1), ("probs", 1)], 0),
         "multivariatenormal": ([("loc", 1), ("covariance_matrix", 2)], 1), "flip": ([("p", 0)], 0), "exponential": ([("rate", 0)], 0),
         "uniform": ([("low", 0), ("high", 0)], 0), "bernoulli": ([("logits", 0), ("probs", 0)], 0)}


def _named_params(fam, args, kwargs):
    """positional and keyword parameters of a site as {constructor parameter name: (term array, event rank)}"""
    names, _ = EVENT[fam]
    out = {}
    for (n, e), a in zip(names, args):
        out[n] = (a, e)
    ranks = dict(names)
    for k, v in kwargs.items():
        if k in out or k not in ranks:
            raise ValueError(f"parameter {k!r}")
        out[k] = (v, ranks[k])
    return out


def _functions():
    from genjax import normal, categorical, multivariate_normal, modular_vmap

    def basic(mu, sigma):
        x = normal.sample(mu, sigma)
        return x, normal.logpdf(x, mu, sigma), mu * 2 + sigma

    def matrix_col(M):
        x = normal.sample(jnp.sum(M), 1.0)
        return x + M[0], normal.logpdf(x, M[0], 2.0)

    def vecsite(mu, sig):
        x = normal.sample(mu, sig)            # mu scalar per lane, sig an unbatched vector: per-lane shape (K,)
        return x, jnp.sum(normal.logpdf(x, mu, sig))

    def sshape(mu):
        x = normal.sample(mu, 1.0, sample_shape=(2,))
        return x, jnp.sum(x) * mu

    def scanned(mu, xs):
        def step(c, x):
            z = normal.sample(c + x, 1.0)
            return z * 0.5, (z, normal.logpdf(z, c, 1.0))
        return jax.lax.scan(step, mu, xs)

    def conded(mu, b):
        return jax.lax.cond(b, lambda: normal.sample(mu, 1.0) * 2.0, lambda: normal.sample(mu + 1.0, 2.0))

    def nested(M):
        inner = modular_vmap(lambda m: normal.sample(m, 1.0) + m)(M)
        return inner, jnp.sum(inner)

    def cat(logits):
        k = categorical.sample(logits)
        return k, categorical.logpdf(k, logits)

    def pytree(d):
        x = normal.sample(d["mu"], d["s"])
        return {"x": x, "lp": normal.logpdf(x, d["mu"], d["s"])}

    def mvn(mu, cov):
        x = multivariate_normal.sample(mu, cov)
        return x, multivariate_normal.logpdf(x, mu, cov)

    def rscan(mu, xs):
        # a REVERSE scan: carry and stacked outputs depend on the direction
        def step(c, x):
            z = normal.sample(c * 0.5 + x, 1.0)
            return z + c, (z, normal.logpdf(z, c, 2.0))
        return jax.lax.scan(step, mu, xs, reverse=True)

    def kwsite(mu, s):
        # distribution parameters passed by keyword, both to the sampler and to the density
        x = normal.sample(mu, scale=s)
        return x, normal.logpdf(x, loc=mu, scale=s)

    def kwprobs(p):
        from genjax import bernoulli
        # keyword that is NOT the first positional parameter of the TFP constructor (logits comes first)
        b = bernoulli.sample(probs=p)
        return b, bernoulli.logpdf(b, probs=p)

    def two_sites(mu, sigma):
        x = normal.sample(mu, 1.0)
        y = normal.sample(x, sigma)
        return x + y, normal.logpdf(y, x, sigma)

    f32 = np.float32
    v2, v3 = np.asarray([0.1, -0.2], f32), np.asarray([0.5, 1.0, 2.0], f32)
    M32 = np.asarray([[0.1, -0.2], [0.3, 0.4], [0.5, -0.6]], f32)
    M23 = M32.T.copy()
    eye = np.asarray([[1.0, 0.25], [0.25, 0.5]], f32)
    return {
        "basic": (basic, [
            ((v2, np.asarray([0.5, 1.5], f32)), 0, None),
            ((v2, f32(0.75)), (0, None), None),
            ((f32(0.25), v3), (None, 0), None),
            ((f32(0.25), f32(0.75)), None, 2),
            ((v2, f32(0.75)), (0, None), 2),
        ]),
        "matrix_col": (matrix_col, [((M32,), 1, None), ((M32,), -1, None), ((M23,), 0, None)]),
        "vecsite": (vecsite, [((np.asarray([0.1, -0.2, 0.3], f32), v3), (0, None), None), ((v2, v3), (0, None), None)]),
        "sshape": (sshape, [((v2,), 0, None), ((np.asarray([0.1, -0.2, 0.3], f32),), 0, None), ((f32(0.3),), None, 2)]),
        "scanned": (scanned, [((v2, np.asarray([0.2, 0.3], f32)), (0, None), None), ((f32(0.1), M32), (None, 1), None)]),
        "conded": (conded, [((v2, np.asarray([True, False])), 0, None), ((v2, np.bool_(True)), (0, None), None)]),
        "nested": (nested, [((M23,), 0, None), ((M23,), 1, None)]),
        "cat": (cat, [((M23,), 0, None), ((M32,), 1, None)]),
        "pytree": (pytree, [(({"mu": v2, "s": f32(0.5)},), ({"mu": 0, "s": None},), None), (({"mu": v2, "s": np.asarray([0.5, 1.5], f32)},), 0, None)]),
        "mvn": (mvn, [((np.asarray([[0.1, -0.2], [0.3, 0.4]], f32), eye), (0, None), None)]),
        "rscan": (rscan, [((v2, np.asarray([0.2, 0.3, -0.1], f32)), (0, None), None), ((f32(0.1), M32), (None, 1), None)]),
        "kwsite": (kwsite, [((v2, np.asarray([0.5, 1.5], f32)), 0, None), ((f32(0.3), v2 + f32(1.0)), (None, 0), None)]),
        "kwprobs": (kwprobs, [((np.asarray([0.25, 0.75], f32),), 0, None)]),
        "two_sites": (two_sites, [((v2, f32(0.75)), (0, None), None), ((f32(0.3), v2), (None, 0), None)]),
    }


def vmap_merge(g):
    """Vmap.merge(x, x_, check) is the callee's merge lane by lane, with a per-lane check (the Cond combinator merges the
    choices of vectorised branches this way) and with check=None; choices with vector-valued lanes included"""
    from genjax import gen, normal
    f32 = np.float32

    @gen
    def lane(m):
        v = normal(jnp.zeros(3) + m, 1.0) @ "v"         # vector-valued choice per lane
        s = normal(m, 1.0) @ "s"
        return jnp.sum(v) + s
    vm = lane.vmap(in_axes=(0,))
    N = 3
    x = {"v": np.zeros((N, 3), f32), "s": np.zeros(N, f32)}
    chk = np.asarray([True, False, True])
    T = g.try_trace("Vmap.merge(x, x_, per-lane check) traces", lambda a, b, c: vm.merge(a, b, c)[0], x, x, chk)
    if T is not None:
        a_s, b_s, c_s = T.ins
        for i in range(N):
            ai, bi = rs.index_tree(a_s, i), rs.index_tree(b_s, i)
            ci = sj.obj(c_s)[i]
            xi = jax.tree_util.tree_map(lambda l: l[i], x)
            L = sj.sym_trace(lambda a, b, c: lane.merge(a, b, c)[0], xi, xi, np.bool_(True),
                             sym_in=[sj.obj(l) for l in jax.tree_util.tree_leaves((ai, bi), is_leaf=rs._isarr)] + [sj.obj(ci)])
            g.eq(f"Vmap.merge with a per-lane check: lane {i} == callee.merge on lane {i} (3 lanes x 3-vectors: pairing errors cannot hide)",
                 rs.index_tree(T.outs, i), L.outs)
    T2 = g.try_trace("Vmap.merge(x, x_) traces", lambda a, b: vm.merge(a, b)[0], x, x)
    if T2 is not None:
        a_s, b_s = T2.ins
        g.eq("Vmap.merge without a check: the second argument wins in every lane", T2.outs, b_s)


GFI_OPS = {"assess": C01, "simulate": C01, "generate": C02, "update": C03, "regenerate": C04}


def _thorough_functions():
    """thorough tier: the same functions on a batch of 3 (and 4) lanes, mapped along other axes"""
    f32 = np.float32
    F = _functions()
    v3 = np.asarray([0.1, -0.2, 0.3], f32)
    v4 = np.asarray([0.1, -0.2, 0.3, 0.7], f32)
    M43 = np.arange(12, dtype=f32).reshape(4, 3) / 10.0
    return {
        "basic": (F["basic"][0], [((v3, v3 + f32(1.0)), 0, None), ((v4, f32(0.75)), (0, None), None), ((f32(0.25), f32(0.75)), None, 4)]),
        "kwsite": (F["kwsite"][0], [((v3, v3 + f32(1.0)), 0, None)]),
        "sshape": (F["sshape"][0], [((v4,), 0, None)]),
        "scanned": (F["scanned"][0], [((v3, np.asarray([0.2, 0.3], f32)), (0, None), None), ((f32(0.1), M43), (None, 0), None)]),
        "conded": (F["conded"][0], [((v3, np.asarray([True, False, True])), 0, None)]),
        "nested": (F["nested"][0], [((M43,), 0, None), ((M43,), 1, None)]),
        "cat": (F["cat"][0], [((M43,), 0, None), ((M43,), 1, None)]),
        "two_sites": (F["two_sites"][0], [((v3, f32(0.75)), (0, None), None)]),
    }


def groups(tier, seed):
    gs = []
    fns = _functions()
    for name, (_, specs) in fns.items():
        gs += [f"mv:{name}:{i}" for i in range(len(specs))]
    if tier == "thorough":
        for name, (_, specs) in _thorough_functions().items():
            gs += [f"mvt:{name}:{i}" for i in range(len(specs))]
    for c in corpus.cases("c08"):
        gs += [f"{op}:{c.name}" for op in GFI_OPS]
    gs.append("merge")
    return gs


def run_group(g, gid):
    kind, _, rest = gid.partition(":")
    if kind == "merge":
        return vmap_merge(g)
    if kind in ("mv", "mvt"):
        name, _, i = rest.partition(":")
        fn, specs = (_functions() if kind == "mv" else _thorough_functions())[name]
        return mv(g, name, fn, *specs[int(i)])
    return GFI_OPS[kind].run_group(g, gid)


# ----------------------------------------------------------------------------------------- modular_vmap on functions
def _norm_axes(in_axes, args):
    if in_axes is None or isinstance(in_axes, int):
        return (in_axes,) * len(args)
    return tuple(in_axes)


def _lane_slice(arg, ax, i):
    """lane i of an (object-array or numpy) argument pytree along the axis spec ax"""
    if ax is None:
        return arg
    if isinstance(ax, int):
        return jax.tree_util.tree_map(lambda l: np.take(l, i, axis=ax), arg, is_leaf=rs._isarr)
    if isinstance(ax, dict):
        return {k: _lane_slice(arg[k], ax[k], i) for k in arg}
    if isinstance(ax, (tuple, list)):
        return type(arg)(_lane_slice(a, x, i) for a, x in zip(arg, ax))
    raise ValueError(ax)


def _key(site):
    """site identity that survives vmap's rewriting of cond into select: loop-iteration path without branch tags"""
    return tuple(p for p in site.path if not (isinstance(p, str) and p.startswith("br")))


def mv(g, name, fn, args, in_axes, axis_size):
    from genjax import modular_vmap
    import itertools
    tag = f"{name} in_axes={in_axes!r} axis_size={axis_size!r}"
    g.sample(function=name, in_axes=repr(in_axes), axis_size=axis_size, arg_shapes=str(jax.tree_util.tree_map(np.shape, args)))
    T = g.try_trace(f"{tag}: modular_vmap(f) accepts the axis specification (traces)",
                    lambda *a: modular_vmap(fn, in_axes=in_axes, axis_size=axis_size)(*a), *args)
    if T is None:
        return
    axes = _norm_axes(in_axes, args)
    N = axis_size
    if N is None:
        N = rs._axis_len(jax.tree_util.tree_map(np.asarray, tuple(args)), axes)
    lane_args0 = tuple(_lane_slice(jax.tree_util.tree_map(np.asarray, a), ax, 0) for a, ax in zip(args, axes))
    by_key = {}
    for s in T.sites:
        by_key.setdefault(_key(s), []).append(s)

    # discovery pass: which lane site meets which batched site, and along which axes the lanes could be laid out
    found = []

    def discover(sid, k, aval, inner):
        path = tuple(p for p in sid[:-1] if not (isinstance(p, str) and p.startswith("br")))
        j = sum(1 for f in found if f[0] == path and f[2] == k)
        found.append((path, j, k, tuple(aval.shape)))
        return sj.fresh_like(aval.shape, aval.dtype, f"disc{len(found)}")
    try:
        g._reset_genjax()
        sj.sym_trace(fn, *lane_args0, scripted=discover, sprefix="d_")
    except Exception as e:
        g._rec(f"{tag}: lane reference run", "inconclusive", detail=f"{type(e).__name__}: {e}"[:300])
        return
    finally:
        g._reset_genjax()
    cands, problems = {}, []
    for path, j, k, lshape in found:
        bsl = by_key.get(path, [])
        if j >= len(bsl):
            problems.append(f"no batched sample site for the lane's site #{j} at loop path {path}")
            continue
        o = sj.obj(bsl[j].outs[k])
        cs = [a for a in range(o.ndim) if o.shape[a] == N and tuple(o.shape[:a] + o.shape[a + 1:]) == lshape]
        if not cs:
            problems.append(f"batched site {bsl[j].name} returns shape {tuple(o.shape)}: no axis of length {N} leaves the per-lane shape {lshape} "
                            f"(one draw per lane needs axis_size x per-lane shape)")
        cands[(path, j, k)] = cs
    n_b = sum(len(v) for v in by_key.values())
    g.ok(f"{tag}: every sampling site of f appears once in the batched run, with one draw per lane", not problems and n_b == len({(p, j) for p, j, _, _ in found}),
         "; ".join(problems[:2]) or f"{n_b} batched sites vs {len(found)} lane sites")
    if problems:
        return
    keys = list(cands)
    assignments = list(itertools.product(*[cands[k] for k in keys]))[:16]
    start = len(g.records)
    for ai, assign in enumerate(assignments):
        del g.records[start:]
        lane_axis = dict(zip(keys, assign))
        _mv_obligations(g, tag, fn, T, N, axes, lane_args0, by_key, lane_axis)
        bad = [r for r in g.records[start:] if r["verdict"] != "proved"]
        if not bad:
            break
    # (if no layout works the records of the last candidate layout are reported)


def _mv_obligations(g, tag, fn, T, N, axes, lane_args0, by_key, lane_axis):
    """lane_axis: for every (loop path, site number, output) the axis of the batched site's value along which the lanes lie"""
    for i in range(N):
        counters = {}
        lane_sym = tuple(_lane_slice(a, ax, i) for a, ax in zip(T.ins, axes))
        flat_lane = [sj.obj(l) for l in jax.tree_util.tree_leaves(lane_sym, is_leaf=rs._isarr)]
        pairs = []

        def scr(sid, k, aval, inner):
            path = tuple(p for p in sid[:-1] if not (isinstance(p, str) and p.startswith("br")))
            j = counters.get((path, k), 0)
            counters[(path, k)] = j + 1
            bs = by_key[path][j]
            a = lane_axis[(path, j, k)]
            pairs.append((bs, k, j, path, a))
            return np.take(sj.obj(bs.outs[k]), i, axis=a)
        try:
            g._reset_genjax()
            L = sj.sym_trace(fn, *lane_args0, sym_in=flat_lane, scripted=scr, sprefix=f"l{i}_")
        except Exception as e:
            g._rec(f"{tag}: lane {i} reference run", "inconclusive", detail=f"{type(e).__name__}: {e}"[:300])
            return
        finally:
            g._reset_genjax()
        L.no_validate = True
        outs_b = jax.tree_util.tree_leaves(T.outs, is_leaf=rs._isarr)
        outs_l = jax.tree_util.tree_leaves(L.outs, is_leaf=rs._isarr)
        shapes_ok = len(outs_b) == len(outs_l) and all(tuple(sj.obj(b).shape) == (N,) + tuple(sj.obj(l).shape) for b, l in zip(outs_b, outs_l))
        g.ok(f"{tag}: lane {i}: output shapes are (axis_size,) + per-lane shapes (layout of jax.vmap)", shapes_ok,
             str([(sj.obj(b).shape, sj.obj(l).shape) for b, l in zip(outs_b, outs_l)]))
        if shapes_ok:
            g.eq(f"{tag}: lane {i} of the result == f(lane {i} of the arguments) with lane {i}'s draws (deterministic results, log densities, sampled values along the mapped axis)",
                 [sj.obj(b)[i] for b in outs_b], [sj.obj(l) for l in outs_l])
        lane_sites = {}
        for s in L.sites:
            lane_sites.setdefault(_key(s), []).append(s)
        for bs, k, j, path, a in pairs:
            ls = lane_sites[path][j]
            fam = (bs.name or "").replace("_", "").lower()
            if fam not in EVENT:
                g._rec(f"{tag}: law of site {bs.name}", "inconclusive", detail="family not in the C08 table")
                continue
            _, ev = EVENT[fam]
            bargs, bkw = gfi._site_args(bs)
            largs, lkw = gfi._site_args(ls)
            o = sj.obj(ls.outs[k])
            ob = sj.obj(bs.outs[k])
            nsb, nsl = len(bs.sample_shape), len(ls.sample_shape)
            goals, why = [], ""
            struct = (ls.name or "") == (bs.name or "")
            if struct:
                try:
                    bp, lp = _named_params(fam, bargs, bkw), _named_params(fam, largs, lkw)
                    struct = sorted(bp) == sorted(lp)
                    if not struct:
                        why = f"the lane's site sets the distribution parameters {sorted(lp)}, the batched site {sorted(bp)}"
                except ValueError as e:
                    struct, why = False, str(e)
            if struct:
                names = sorted(bp)
                pe = [bp[n][1] for n in names]
                bargs, largs = [bp[n][0] for n in names], [lp[n][0] for n in names]
                for idx in np.ndindex(*o.shape):
                    lb = idx[nsl:o.ndim - ev] if ev else idx[nsl:]
                    lane_ps = gfi._param_slices(largs, pe, lb)
                    full = tuple(idx[:a]) + (i,) + tuple(idx[a:])          # the same element inside the batched value
                    bb = full[nsb:ob.ndim - ev] if ev else full[nsb:]
                    try:
                        bat_ps = gfi._param_slices(bargs, pe, bb)
                    except Exception as e:
                        struct, why = False, f"batched site parameters do not index like its output: {e}"
                        break
                    for x, y in zip(bat_ps, lane_ps):
                        goals.append(solve.eq_arrays(x, y))
            desc = f"{tag}: lane {i}: draw #{j} at {path} is distributed per lane {i}'s parameters ({bs.name})"
            if not struct:
                g.ok(desc, False, why or f"family {bs.name!r} vs {ls.name!r} / argument count")
            else:
                g.holds(desc, z3.And(*goals) if goals else z3.BoolVal(True))
