"""C12: resampling copies particles faithfully, preserves the estimate, and is unbiased."""
from __future__ import annotations

import numpy as np
import z3

import jax
import jax.numpy as jnp

from .. import symjax as sj, solve, refsem as rs, corpus, gfi

FUNCTIONS = ["systematic_resample (logsumexp, cumsum, searchsorted)", "resample_vectorized_trace", "resample",
             "ParticleCollection.log_marginal_likelihood", "_create_particle_collection"]
BOUNDS = {"N": "particle counts 1..4 (quick 2..3 for the nonlinear floor/ceil query, 1..4 otherwise; thorough up to 5)",
          "weights": "log-domain mode: log w_i = Log(P_i), all P_i > 0; zero-weight particles (P_i >= 0, sum > 0) in the weight-level queries",
          "offset": "all u in (0,1)", "trace": "vectorised trace of a corpus model with nested sub-trace leaves"}
ASSUMPTIONS = ["log-domain mode: a float literal equal (to float32 precision) to log(n), n <= 64, is read as exactly log(n) (jnp.log(n_samples) is computed at trace time)",
               "reals: cumsum ends at exactly 1 (float round-off of cumsum is outside the claim)",
               "categorical: E[count_i] = N w_i follows from the site law (family categorical, logits == log weights up to normalisation, sample_shape (N,))"]
EXPLANATION = "resample / systematic_resample traced and encoded in log-domain mode; inverse-CDF characterisation, floor/ceil, sum, expectation as interval-length identity"


def groups(tier, seed):
    Ns = [1, 2, 3] + ([4] if tier == "thorough" else [])
    gs = [f"sys:{n}" for n in Ns] + [f"sys0:{n}" for n in ((2, 3) if tier == "thorough" else (2,))] + [f"expect:{n}" for n in (1, 2, 3, 4, 5)]
    gs += [f"resample:{m}:{n}" for m in ("systematic", "categorical") for n in (1, 2, 3)]
    if tier == "thorough":
        gs += ["sys:5", "resample:systematic:4", "resample:categorical:4"]
    return gs


def logw(n, positive=True, prefix="P"):
    P = [z3.Real(f"{prefix}{i}") for i in range(n)]
    arr = np.empty((n,), dtype=object)
    for i in range(n):
        arr[i] = sj.LogV(P[i])
    cons = [p > 0 for p in P] if positive else ([p >= 0 for p in P] + [sum(P) > 0])
    return P, arr, cons


def run_group(g, gid):
    parts = gid.split(":")
    if parts[0] in ("sys", "sys0"):
        return systematic(g, int(parts[1]), positive=(parts[0] == "sys"))
    if parts[0] == "expect":
        return expectation(g, int(parts[1]))
    if parts[0] == "resample":
        return resample_group(g, parts[1], int(parts[2]))


def systematic(g, N, positive=True):
    from genjax.inference.smc import systematic_resample
    P, lw, cons = logw(N, positive)
    T = g.try_trace("systematic_resample traces", lambda l: systematic_resample(l, N), jnp.zeros(N), sym_in=[lw], logmode=True)
    if T is None:
        return
    T.no_validate = True      # log-domain inputs: validated separately below with plain reals
    idx = [sj.unlog(sj.obj(T.outs)[j]) for j in range(N)]
    one = len(T.sites) == 1 and (T.sites[0].name or "").lower() == "uniform" and sj.obj(T.sites[0].outs[0]).shape == ()
    g.ok("exactly one uniform offset site drawing ONE scalar offset shared by all strata (systematic, not stratified)", one,
         str([(s.name, sj.obj(s.outs[0]).shape) for s in T.sites]))
    if not one:
        return
    site = T.sites[0]
    u = sj.obj(site.outs[0]).item()
    sargs, _ = gfi._site_args(site)
    lo_hi = [sj.unlog(sj.obj(a).item()) for a in sargs[:2]]
    if all(sj.is_num(t) for t in lo_hi):
        # constant parameters: decided structurally (value independent)
        g.ok("offset ~ uniform(0, 1)", [sj.num_val(t) for t in lo_hi] == [0, 1], f"uniform({', '.join(str(t) for t in lo_hi)})")
    else:
        g.holds("offset ~ uniform(0, 1)", z3.And(solve.eq_arrays(sargs[0], sj.obj(sj.RV(0))), solve.eq_arrays(sargs[1], sj.obj(sj.RV(1)))))
    A = cons + [u > 0, u < 1]
    g.assume(*A)
    S = sum(P)
    C = [sum(P[:i + 1]) / S for i in range(N)]
    Cm = [sj.RV(0)] + C[:-1]
    tag = f"N={N}{'' if positive else ', zero weights allowed'}"
    g.holds(f"{tag}: indices in range", z3.And(*[z3.And(i >= 0, i < N) for i in idx]))
    # inverse CDF of the stratified point (j+u)/N
    g.holds(f"{tag}: idx_j is the inverse CDF of (j+u)/N",
            z3.And(*[z3.And(*[(idx[j] == i) == z3.And(Cm[i] < (j + u) / N, (j + u) / N <= (C[i] if i < N - 1 else 1)) for i in range(N)])
                     for j in range(N)]))
    cnt = [sum([z3.If(idx[j] == i, 1, 0) for j in range(N)]) for i in range(N)]
    W = [p / S for p in P]
    g.holds(f"{tag}: counts sum to N", sum(cnt) == N)
    g.holds(f"{tag}: every particle gets floor(N w_i) or ceil(N w_i) copies",
            z3.And(*[z3.And(z3.ToReal(cnt[i]) > N * W[i] - 1, z3.ToReal(cnt[i]) < N * W[i] + 1) for i in range(N)]))
    if N > 1:
        g.fault_twin("count-is-exactly-floor", z3.And(*[z3.ToReal(cnt[i]) <= N * W[i] for i in range(N)]))
    # concrete cross-check of the encoding against the real function at a few points (log-domain inputs)
    rng = np.random.default_rng(g.seed)
    from .. import concrete
    bad = 0
    for _ in range(5):
        pv = rng.uniform(0.1, 2.0, size=N)
        if not positive:
            pv[rng.integers(0, N)] = 0.0
        uv = float(np.float32(rng.uniform(0.05, 0.95)))
        env = {f"P{i}": float(pv[i]) for i in range(N)}
        env[str(u)] = uv
        mine = [int(concrete.numeval(i, env)) for i in idx]
        script = concrete.Script({site.sid: [np.float32(uv)]})
        with np.errstate(divide="ignore"):
            real = concrete.run_scripted(script, T.closed.jaxpr, T.closed.consts, jnp.asarray(np.log(pv), dtype=jnp.float32))[0]
        if list(np.asarray(real)) != mine:
            # float32 rounding at a stratum boundary can legitimately differ; count only clear mismatches
            w = pv / pv.sum()
            cs = np.cumsum(w)
            pos = (np.arange(N) + uv) / N
            if np.min(np.abs(cs[None, :] - pos[:, None])) > 1e-4:
                bad += 1
    g.validated += 1
    if bad:
        g._rec("translator-validation", "error", detail=f"{bad} concrete mismatches between encoding and real systematic_resample")


def expectation(g, N):
    """E_u[count_i] = N w_i from the pointwise characterisation: sum_j |(N C_{i-1} - j, N C_i - j] ∩ (0,1)| = N w_i"""
    C = [z3.Real(f"C{i}") for i in range(N + 1)]
    A = [C[0] == 0, C[N] == 1] + [C[i] <= C[i + 1] for i in range(N)]
    goals = []
    for i in range(1, N + 1):
        tot = 0
        for j in range(N):
            lo = z3.If(N * C[i - 1] - j > 0, N * C[i - 1] - j, 0)
            hi = z3.If(N * C[i] - j < 1, N * C[i] - j, 1)
            tot = tot + z3.If(hi > lo, hi - lo, 0)
        goals.append(tot == N * (C[i] - C[i - 1]))
    g.holds(f"N={N}: expected number of copies under systematic resampling == N w_i (interval-length identity)", z3.And(*goals), A)
    g._nontrivial.add("expect")


def resample_group(g, method, N):
    from genjax.inference import smc
    from genjax import const
    case = corpus.get("nested")
    gf = rs.to_genjax(case.prog)
    shp = jax.eval_shape(lambda: smc.init(gf, tuple(case.args), const(N), {"y": jnp.float32(0.5)}))
    p0 = gfi.zeros_like_shape(shp)
    g.programs.add(f"particles of model 'nested', N={N}")

    def f(p):
        q = smc.resample(p, method=method)
        return q, p.log_marginal_likelihood(), q.log_marginal_likelihood()
    flat, td = jax.tree_util.tree_flatten(p0)
    # symbolic inputs: log_weights and log_marginal_estimate in log domain
    names = [jax.tree_util.keystr(k) for k, _ in jax.tree_util.tree_flatten_with_path(p0)[0]]
    sym_in, cons, P = [], [], None
    for i, (nm, leaf) in enumerate(zip(names, flat)):
        if nm.endswith("log_weights"):
            P, arr, c = logw(N)
            sym_in.append(arr)
            cons += c
        elif nm.endswith("log_marginal_estimate"):
            M = z3.Real("M")
            sym_in.append(sj.obj(sj.LogV(M)))
            cons.append(M > 0)
        else:
            sym_in.append(sj.fresh_like(leaf.shape, leaf.dtype, f"t{i}"))
    T = g.try_trace(f"resample({method}) traces", f, p0, sym_in=sym_in, logmode=True)
    if T is None:
        return
    (p_in,) = T.ins
    q, lml0, lml1 = T.outs
    A = list(cons)
    for s in T.sites:
        if (s.name or "").lower() == "uniform":
            if method == "systematic":
                g.ok(f"{method}, N={N}: one scalar offset shared by all strata", sj.obj(s.outs[0]).shape == (), str(sj.obj(s.outs[0]).shape))
            A += [z3.And(u > 0, u < 1) for u in sj.terms(s.outs[0])]
        else:
            A += [z3.And(t >= 0, t < N) for t in sj.terms(s.outs[0])]
    g.assume(*A)
    tag = f"{method}, N={N}"
    g.ok(f"{tag}: same number of particles", q.n_samples.value == N and all(
        sj.obj(l).shape[0] == N for l in jax.tree_util.tree_leaves(q.traces, is_leaf=rs._isarr)))
    g.eq(f"{tag}: log weights reset to 0", q.log_weights, np.array([sj.RV(0)] * N, dtype=object))
    g.eq(f"{tag}: log_marginal_likelihood() unchanged", lml1, lml0)
    S = sum(P)
    g.eq(f"{tag}: diagnostic weights == normalised pre-resampling log weights", q.diagnostic_weights,
         np.array([sj.LogV(p / S) for p in P], dtype=object))
    # faithful copies: every leaf of particle j comes from ONE source index
    lin = jax.tree_util.tree_leaves(p_in.traces, is_leaf=rs._isarr)
    lout = jax.tree_util.tree_leaves(q.traces, is_leaf=rs._isarr)
    g.ok(f"{tag}: same trace structure", len(lin) == len(lout))
    for j in range(N):
        disj = []
        for i in range(N):
            disj.append(z3.And(*[solve.eq_arrays(sj.obj(o)[j], sj.obj(a)[i]) for a, o in zip(lin, lout)]))
        g.holds(f"{tag}: particle {j} is an exact copy of one input particle (all fields from the same source index)", z3.Or(*disj))
    if method == "categorical":
        sites = [s for s in T.sites if (s.name or "").lower() == "categorical"]
        g.ok(f"{tag}: one categorical site with sample_shape (N,)", len(sites) == 1 and tuple(sites[0].sample_shape) == (N,),
             str([(s.name, s.sample_shape) for s in T.sites]))
        if sites:
            sargs, _ = gfi._site_args(sites[0])
            logits = sj.obj(sargs[0])
            # logits == log weights up to an additive constant: normalised weights agree
            Ps = [l.P if isinstance(l, sj.LogV) else sj.s_exp(l) for l in logits]
            tot = sum(Ps)
            g.holds(f"{tag}: index distribution is categorical with probabilities w_i (expected copies N w_i)",
                    z3.And(*[Ps[i] / tot == P[i] / S for i in range(N)]))
