"""C14: unseeded sampling can never be compiled into a fixed-randomness program."""
from __future__ import annotations

import numpy as np
import z3

import jax
import jax.numpy as jnp

from .. import symjax as sj, solve, keys
from ..ch import runner

FUNCTIONS = ["InitialStylePrimitive.lowering", "PPPrimitive lowering proxy", "create_sample_primitive (lowering_exception param)",
             "VmapBatchHandler.create_batch_rule", "Seed.eval_jaxpr_seed (fall-through)", "default jvp rule of initial_style_bind"]
BOUNDS = {"placements": "sample site under jit, scan, while_loop, fori_loop (static/dynamic bound), cond, switch, lax.map, grad, remat, custom_jvp, custom_vjp, nested jit; depth <= 2 (compositions of two); programs whose only sites are vectorised ones (modular_vmap / Vmap combinator inside jit and scan)",
          "flags": "symbolic enforce_lowering_exception / lowering_warning / presence of the carried exception (CrossHair)",
          "values": "abstract lowering and tracing involve no values: a verdict holds for all inputs"}
ASSUMPTIONS = ["abstract lowering (jax.jit(f).lower(avals)) stands for compilation; XLA itself is outside the claim"]
EXPLANATION = ("(1) CrossHair on the real lowering rule with symbolic flags; (2) per placement: the traced IR carries a sample equation with the "
               "dedicated exception and abstract lowering raises it; (3) seed(f): symjax-encoded IR has no residual site and every random draw derives "
               "from the key argument (no constant key), or tracing raised the dedicated error")

LOWER_UNIT = '''def lowering_decision(enforce: bool, warn: bool, has_exc: bool, has_warn: bool) -> str:
    """
    post: implies(enforce and not warn and has_exc, _ == "raised-carried")
    post: implies(has_exc and enforce and not (warn and has_warn), _ == "raised-carried")
    """
    pjax.enforce_lowering_exception = enforce
    pjax.lowering_warning = warn
    params = {}
    if has_exc:
        params["lowering_exception"] = _Boom("carried")
    if has_warn:
        params["lowering_warning"] = "msg"
    try:
        with warnings.catch_warnings():
            warnings.simplefilter("ignore")
            pjax.sample_p.lowering(None, **params)
    except _Boom:
        return "raised-carried"
    except Exception:
        return "fell-through"
    finally:
        pjax.enforce_lowering_exception = True
        pjax.lowering_warning = False
    return "lowered"
'''

TWIN_UNIT = LOWER_UNIT.replace("def lowering_decision", "def lowering_twin").replace(
    'post: implies(enforce and not warn and has_exc, _ == "raised-carried")\n    post: implies(has_exc and enforce and not (warn and has_warn), _ == "raised-carried")',
    'post: _ == "raised-carried"')


def placements():
    from genjax import normal

    def site(m):
        return normal.sample(m, 1.0)
    P = {}
    P["jit"] = lambda m: jax.jit(site)(m)
    P["scan"] = lambda m: jax.lax.scan(lambda c, _: (site(c), c), m, None, length=2)[0]
    P["while_loop"] = lambda m: jax.lax.while_loop(lambda c: c[0] < 2, lambda c: (c[0] + 1, site(c[1])), (0, m))[1]
    P["fori_loop"] = lambda m: jax.lax.fori_loop(0, 2, lambda i, c: site(c), m)
    P["fori_loop_dynamic"] = lambda m: jax.lax.fori_loop(0, jnp.int32(m > 0) + 1, lambda i, c: site(c), m)
    P["cond"] = lambda m: jax.lax.cond(m > 0, site, lambda x: x, m)
    P["switch"] = lambda m: jax.lax.switch(jnp.int32(m > 0), [site, lambda x: x * 2], m)
    P["map"] = lambda m: jax.lax.map(site, jnp.stack([m, m]))
    P["grad"] = lambda m: jax.grad(lambda x: x * site(x))(m)
    P["remat"] = lambda m: jax.checkpoint(site)(m)

    @jax.custom_jvp
    def cj(x):
        return site(x)
    cj.defjvp(lambda p, t: (cj(p[0]), t[0]))
    P["custom_jvp"] = lambda m: cj(m)

    @jax.custom_vjp
    def cv(x):
        return site(x)
    cv.defvjp(lambda x: (cv(x), None), lambda r, g: (g,))
    P["custom_vjp"] = lambda m: cv(m)
    P["jit_in_jit"] = lambda m: jax.jit(lambda x: jax.jit(site)(x) + 1)(m)
    # depth 2
    P["scan_in_cond"] = lambda m: jax.lax.cond(m > 0, lambda x: jax.lax.scan(lambda c, _: (site(c), c), x, None, length=2)[0], lambda x: x, m)
    P["cond_in_scan"] = lambda m: jax.lax.scan(lambda c, _: (jax.lax.cond(c > 0, site, lambda x: x, c), c), m, None, length=2)[0]
    P["jit_in_scan"] = lambda m: jax.lax.scan(lambda c, _: (jax.jit(site)(c), c), m, None, length=2)[0]
    P["remat_in_scan"] = lambda m: jax.lax.scan(lambda c, _: (jax.checkpoint(site)(c), c), m, None, length=2)[0]
    P["while_in_jit"] = lambda m: jax.jit(P["while_loop"])(m)
    P["grad_in_scan"] = lambda m: jax.lax.scan(lambda c, _: (jax.grad(lambda x: x * site(x))(c), c), m, None, length=2)[0]
    # sites that went through the modular_vmap batching rule (rebound primitives), alone in the compiled program
    from genjax import modular_vmap, gen

    @gen
    def lane_model(mu):
        return normal(mu, 1.0) @ "x"
    P["modular_vmap_in_jit"] = lambda m: jax.jit(lambda x: modular_vmap(site)(jnp.stack([x, x * 2.0])))(m)
    P["modular_vmap_axis_size_in_jit"] = lambda m: jax.jit(lambda x: modular_vmap(lambda: site(x), in_axes=(), axis_size=2)())(m)
    P["vmap_combinator_in_jit"] = lambda m: jax.jit(lambda x: lane_model.vmap(in_axes=(0,)).simulate(jnp.stack([x, x * 2.0])).get_retval())(m)
    P["modular_vmap_in_scan"] = lambda m: jax.lax.scan(lambda c, _: (jnp.sum(modular_vmap(site)(jnp.stack([c, c]))), c), m, None, length=2)[0]
    return P


COMPILING = {"jit", "scan", "while_loop", "fori_loop", "fori_loop_dynamic", "cond", "switch", "map", "jit_in_jit", "scan_in_cond",
             "cond_in_scan", "jit_in_scan", "remat_in_scan", "while_in_jit", "grad_in_scan", "modular_vmap_in_jit",
             "modular_vmap_axis_size_in_jit", "vmap_combinator_in_jit", "modular_vmap_in_scan"}


def groups(tier, seed):
    return ["lowering_rule"] + [f"place:{k}" for k in placements()] + ["vmap"]


def has_sample_eqn(jaxpr, need_exc=True):
    from genjax import pjax
    found = []

    def walk(jp):
        for e in jp.eqns:
            prim, inner = pjax.PPPrimitive.unwrap(e.primitive)
            if prim in (pjax.sample_p, pjax.adev_sample_p):
                found.append(isinstance(inner.get("lowering_exception"), pjax.LoweringSamplePrimitiveToMLIRException))
            for v in e.params.values():
                for j in (v if isinstance(v, (tuple, list)) else (v,)):
                    j2 = getattr(j, "jaxpr", j)
                    if hasattr(j2, "eqns"):
                        walk(j2)
    walk(jaxpr)
    return found


def classify(f, *a):
    from genjax.pjax import LoweringSamplePrimitiveToMLIRException as LE
    from genjax import core
    try:
        r = f(*a)
        return "ok", r
    except LE:
        return "lowering_error", None
    except Exception as e:
        return f"{type(e).__name__}: {str(e)[:120]}", None
    finally:
        core.handler_stack.clear()


def run_group(g, gid):
    kind, _, name = gid.partition(":")
    if kind == "lowering_rule":
        return lowering_rule(g)
    if kind == "vmap":
        return vmap_group(g)
    from genjax import seed
    f = placements()[name]
    m = jnp.float32(0.3)
    g.programs.add(name)
    # (2) unseeded: compiling the function must raise the dedicated error (abstract lowering: no values involved)
    c, _ = classify(lambda: jax.jit(f).lower(jax.ShapeDtypeStruct((), jnp.float32)))
    if c == "ok":
        # no error: is a sample site still in the IR, or was a key baked in?
        closed = jax.make_jaxpr(f)(m)
        T = sj.eval_closed(closed, [sj.fresh_like((), np.float32, "m")])
        baked = [str(k[1]) for k in T[0].consumed if k[0] == "bits" and keys.has_const_key(k[1])]
        g.ok(f"jit({name}(site)) raises the dedicated lowering error", False,
             f"compiles; the executable draws from constant key(s) {baked[:2]}" if baked else "compiles")
    else:
        g.ok(f"jit({name}(site)) raises the dedicated lowering error", c == "lowering_error", c)
    if name in COMPILING:
        c, _ = classify(f, m)
        g.ok(f"running {name}(site) (which compiles its body) raises the dedicated lowering error", c == "lowering_error", c)
    try:
        closed = jax.make_jaxpr(f)(m)
        flags = has_sample_eqn(closed.jaxpr)
        if flags:
            g.ok(f"{name}: every sample equation in the IR carries the dedicated exception", all(flags), str(flags))
    except Exception:
        pass
    # (3) seed
    def sf(key, m):
        return seed(f)(key, m)
    c, _ = classify(lambda: jax.make_jaxpr(sf)(jax.random.key(0), m))
    if c == "lowering_error":
        g.ok(f"seed({name}(site)): removes the site or raises the dedicated error", True, "raises the dedicated error")
        return
    if c != "ok":
        g.ok(f"seed({name}(site)): removes the site or raises the dedicated error", False, c)
        return
    T = g.try_trace(f"seed({name}(site)) encodes", sf, jax.random.key(0), m)
    if T is None:
        return
    T.no_validate = True
    key0 = T.flat_in[0].item()
    g.ok(f"seed({name}(site)): no sampling site survives at any depth", len(T.sites) == 0 and not has_sample_eqn(T.closed.jaxpr),
         f"{len(T.sites)} residual site(s): they draw from the hidden global key counter when the result is run eagerly")
    bits = [k for k in T.ctx.consumed if k[0] == "bits"]
    bad = [str(k[1]) for k in bits if keys.has_const_key(k[1]) or not keys.derives_from(k[1], key0)]
    g.ok(f"seed({name}(site)): every random draw derives from the key argument (no hidden randomness)", not bad and (bool(bits) or bool(T.sites)),
         ("draws from constant key(s) " + "; ".join(bad[:2])) if bad else ("no random bits drawn" if not bits else ""))
    c, _ = classify(lambda: jax.jit(sf).lower(jax.random.key(0), m))
    g.ok(f"jit(seed({name}(site))) compiles", c == "ok", c)


def vmap_group(g):
    """plain jax.vmap over a site must raise instead of replicating one draw"""
    from genjax import normal, seed
    m = jnp.float32(0.3)
    fb = lambda m: jax.vmap(lambda x: normal.sample(x, 1.0))(jnp.stack([m, m]))
    fu = lambda m: jax.vmap(lambda x: x + normal.sample(0.0, 1.0))(jnp.stack([m, m]))
    for nm, f in (("batched site arguments", fb), ("unbatched site arguments", fu)):
        c, _ = classify(lambda: jax.make_jaxpr(f)(m))
        if c == "ok":
            T = sj.sym_trace(f, m)
            out = sj.obj(T.flat_out[0])
            shared = [s for s in T.sites if int(np.prod(sj.obj(s.outs[0]).shape)) < out.shape[0]]
            lanes_same = len(T.sites) >= 1 and all(
                set(str(v) for v in sj.free_vars([sj.unlog(out[0])]) if str(v).startswith("s")) ==
                set(str(v) for v in sj.free_vars([sj.unlog(out[i])]) if str(v).startswith("s")) for i in range(1, out.shape[0]))
            g.ok(f"jax.vmap over a site ({nm}) raises instead of replicating one draw", not lanes_same,
                 "no error: every lane is computed from the SAME outcome variable of a single draw")
        else:
            g.ok(f"jax.vmap over a site ({nm}) raises instead of replicating one draw", True, c)


def lowering_rule(g):
    units = [("lowering_decision", LOWER_UNIT), ("lowering_twin", TWIN_UNIT)]
    pre = "import warnings\nimport genjax.pjax as pjax\n\n\nclass _Boom(Exception):\n    pass\n"
    res, path, d = runner.run_units(units, pre, timeout_s=60, jobs=2)
    try:
        v, detail, secs = res["lowering_decision"]
        desc = "lowering rule: with the exception carried and enforcement on (default flags) it raises that exception on every path, never reaching mlir.lower_fun"
        g._nontrivial.add(desc)
        if v == "confirmed":
            g._rec(desc, "proved", time=secs, detail="CrossHair: Confirmed over all paths")
        elif v == "counterexample":
            rep, txt = runner.replay_counterexample(path, detail)
            g._rec(desc, "violation" if rep else "inconclusive", detail=f"{detail} / {txt}", replay_kind="structural")
        else:
            g._rec(desc, "inconclusive", detail=f"CrossHair {v}: {detail}")
        v2, d2, _ = res["lowering_twin"]
        if v2 == "counterexample":
            g.twins_ok += 1
            g.fault_twins_ok += 1
        else:
            g._rec("fault-twin:lowering", "error", detail=f"over-strong postcondition not refuted: {v2} {d2}")
        g.sample(unit=LOWER_UNIT[:700])
    finally:
        import shutil
        shutil.rmtree(d, ignore_errors=True)
