"""C07: every sample site of a seeded run gets its own independent randomness."""
from __future__ import annotations

import numpy as np
import z3

import jax
import jax.numpy as jnp

from .. import symjax as sj, solve, seeded, keys, refsem as rs

FUNCTIONS = ["Seed.eval_jaxpr_seed (sample, cond, scan cases)", "seed", "flat keyful sampler invocation",
             "VmapBatchHandler (sample_shape extension)", "modular_vmap"]
BOUNDS = {"programs": "as C06", "scan": "unrolled lengths <= 3 plus a symbolic-iteration-index analysis of every scan body (covers every length)",
          "vmap": "batch 2-3", "values": "all keys and arguments"}
ASSUMPTIONS = ["PRNG abstraction (free key algebra, Bits uninterpreted); statistical independence and 'never equal values' are the corollaries of "
               "distinct key derivations under the threefry assumption",
               "TFP's documented sampler for the family is the reference for 'follows that site's distribution'"]
EXPLANATION = ("consumed key terms of the seeded IR: pairwise distinctness, never drawn-and-split, per-choice-element disjoint bit sets, "
               "each choice equals the documented TFP sampler applied to its own sub-key and the reference parameters")


def groups(tier, seed):
    return [f"keys:{p[0]}" for p in seeded.programs(tier)] + ["twin:shared_key"]


def bits_atoms(t):
    """set of (key term string, index) of Bits atoms a term depends on"""
    out = set()
    for c in keys.subterms(sj.unlog(t)):
        if z3.is_app(c) and c.decl().name() == "Bits":
            out.add((str(c.arg(0)), str(c.arg(1))))
    return out


def run_group(g, gid):
    from genjax import seed
    kind, _, name = gid.partition(":")
    if kind == "twin":
        return shared_key_twin(g)
    pname, fn, args, kwargs, case = seeded.get(name)
    g.programs.add(pname)

    def seeded_fn(key, args, kwargs):
        return seed(lambda a, kw: fn(*a, **kw))(key, args, kwargs)
    T = g.try_trace("seed(f) traces", seeded_fn, jax.random.key(0), args, kwargs)
    if T is None:
        return
    T.no_validate = True
    key0 = T.flat_in[0].item()
    cons = T.ctx.consumed
    g.sample(program=pname, consumed=[f"{c[0]} {c[1]}" for c in cons][:8])
    own = [c for c in cons if keys.derives_from(c[1], key0)]
    goals = keys.hygiene_goals(own)
    by = {}
    for d, gl in goals:
        by.setdefault(d, []).append(gl)
    for d, gls in by.items():
        r = solve.prove(z3.And(*gls))
        g._nontrivial.add(d)
        if r.verdict == "unsat":
            g._rec(f"{d} ({len(gls)} pairs)", "proved", time=round(r.time, 4))
        elif r.verdict == "sat":
            g._rec(f"{d} ({len(gls)} pairs)", "violation", time=round(r.time, 4), replay_kind="structural",
                   detail="two consumptions can use the same key term: " + str([str(x) for x in gls if str(solve.prove(x, timeout_ms=2000).verdict) == "sat"][:2]))
        else:
            g._rec(f"{d} ({len(gls)} pairs)", "inconclusive", detail="solver unknown")
    # per-element randomness: every random output element depends on its own bits
    outs = [o for o in T.flat_out]
    elems = []
    for li, o in enumerate(outs):
        o = sj.obj(o)
        for idx in np.ndindex(o.shape):
            b = bits_atoms(o[idx])
            if b:
                elems.append(((li, idx), b))
    # choice elements: those that are "roots" of randomness = elements whose bit set is not a union of others'.
    # Independence obligation on the sampled choices themselves: see site matching below (corpus programs);
    # for raw programs: the direct draws returned by the function.
    if case is not None:
        site_matching(g, T, case, key0)
    else:
        raw_draws(g, T, pname, key0)
    scan_symbolic_index(g, T)


def key_candidates(cons):
    seen, out = set(), []
    for c in cons:
        for t in keys.subterms(c[1]):
            if t.sort() == sj.Key and t.get_id() not in seen:
                seen.add(t.get_id())
                out.append(t)
    return out


_REFS = {}


def ref_sample(fam, key_term, params, out_shape):
    """documented TFP sampler of the family applied to key and reference parameters, encoded by symjax"""
    from tensorflow_probability.substrates import jax as tfp
    tfd = tfp.distributions
    params = [rs.lift(p) for p in params]
    pav = [jax.ShapeDtypeStruct(p.shape, rs._dtype_of(p)) for p in params]
    # sample_shape such that the result has out_shape
    d0 = jax.eval_shape(lambda k, *ps: fam.tfd_ctor(tfd, *ps).sample(seed=k), jax.random.key(0), *pav)
    base = tuple(d0.shape)
    if len(out_shape) < len(base) or tuple(out_shape[len(out_shape) - len(base):]) != base:
        return None
    S = tuple(out_shape[:len(out_shape) - len(base)])
    ck = (fam.name, S, tuple(p.shape for p in params), tuple(rs._kind(p) for p in params))
    if ck not in _REFS:
        _REFS[ck] = jax.make_jaxpr(lambda k, *ps: fam.tfd_ctor(tfd, *ps).sample(seed=k, sample_shape=S))(jax.random.key(0), *pav)
    closed = _REFS[ck]
    ctx = sj.Ctx()
    (out,) = sj.eval_jaxpr(ctx, closed.jaxpr, closed.consts, sj.obj(key_term), *params)
    return out


def site_matching(g, T, case, key0):
    """each choice of the seeded simulate == documented TFP sampler(own sub-key, reference parameters);
    the sub-keys of different sites are different terms; within a (vectorised) site every element has its
    own random bits"""
    tr, choices, score, retval = T.outs
    _, args_s, kw_s = T.ins
    rctx = rs.RefCtx()
    rs.ref_eval(case.prog, rs.state_of_canon(rs.canon_trace(tr)), list(args_s), kw_s, rctx)
    cands = key_candidates(T.ctx.consumed)
    used = {}
    groups_ = {}
    for rec in rctx.sites:
        gkey = tuple(k for k in rec.path if not (isinstance(k, tuple) and k[0] == "lane"))
        groups_.setdefault(gkey, []).append(rec)
    for gkey, recs in groups_.items():
        fam = recs[0].family
        nl = sum(1 for k in recs[0].path if isinstance(k, tuple) and k[0] == "lane")
        if nl == 0:
            val = sj.obj(recs[0].value)
            params = recs[0].params
        elif nl == 1:
            val = np.stack([sj.obj(r.value) for r in recs], axis=0)
            params = [np.stack([sj.obj(r.params[j]) for r in recs], axis=0) for j in range(len(recs[0].params))]
        else:
            g._rec(f"site {gkey}: nested lanes", "inconclusive", detail="nested vmap lanes not matched")
            continue
        found = None
        for k in cands:
            try:
                ref = ref_sample(fam, k, params, val.shape)
            except sj.Unsupported:
                ref = None
            if ref is None:
                continue
            if solve.prove(solve.eq_arrays(val, ref), timeout_ms=5000).verdict == "unsat":
                found = k
                break
        where = "/".join(map(str, gkey))
        desc = (f"site {where}" + (f" ({len(recs)} lanes, one batched draw)" if nl else "") +
                f": draw == documented TFP sampler of {fam.name}(reference parameters of each lane) on its own sub-key")
        if found is None:
            g.ok(desc, False, "no sub-key reproduces the draw")
            continue
        g.ok(desc, True, str(found))
        used.setdefault(str(found), []).append(where)
        # own randomness per element
        own = []
        for idx in np.ndindex(val.shape):
            atoms = set()
            for c in keys.subterms(sj.unlog(val[idx])):
                if z3.is_app(c) and c.decl().name() == "Bits" and keys.derives_from(c.arg(0), found):
                    atoms.add((str(c.arg(0)), str(c.arg(1))))
            own.append((idx, atoms))
        bad = [str(i) for i, a in own if not a]
        for i, (i1, a1) in enumerate(own):
            for i2, a2 in own[i + 1:]:
                if a1 & a2:
                    bad.append(f"{list(i1)} and {list(i2)} share bits")
        g.ok(f"site {where}: every element of the draw has its own random bits (never one draw broadcast)", not bad, "; ".join(bad[:3]))
    dup = {k: v for k, v in used.items() if len(v) > 1}
    g.ok("no two sites draw from the same sub-key", not dup, str(dup)[:200])
    ks = [k for k in cands if str(k) in used]
    anc = [(str(a), str(b)) for a in ks for b in ks if not a.eq(b) and keys.derives_from(a, b)]
    g.ok("no site's sub-key is derived from another site's sub-key", not anc, str(anc)[:200])


def raw_draws(g, T, pname, key0):
    leaves = [sj.obj(o) for o in T.flat_out]
    elems = []
    for li, o in enumerate(leaves):
        for idx in np.ndindex(o.shape):
            elems.append((f"out{li}{list(idx)}", o[idx]))
    if pname == "raw_two_same":
        a, b = elems[0][1], elems[1][1]
        g.ok("two equally parameterised sites are different terms (different keys)", not a.eq(b))
        g.ok("... and depend on disjoint random bits", not (bits_atoms(a) & bits_atoms(b)))
    if pname in ("raw_kwargs",):
        a, b = elems[0][1], elems[1][1]
        g.ok("two equally parameterised sites (kwargs) depend on disjoint random bits", not (bits_atoms(a) & bits_atoms(b)) and bool(bits_atoms(a)))
    if pname == "raw_sample_shape":
        v = [e for n, e in elems[:3]]
        sets = [bits_atoms(e) for e in v]
        g.ok("sample_shape=(3,) elements use pairwise disjoint random bits",
             all(sets) and not (sets[0] & sets[1]) and not (sets[0] & sets[2]) and not (sets[1] & sets[2]))


def scan_symbolic_index(g, T):
    """Analyse every seeded scan body ONCE with a symbolic iteration index: two copies with indices i != j
    consume pairwise different keys -> holds for every scan length."""
    found = []

    def walk(jaxpr):
        for e in jaxpr.eqns:
            if e.primitive.name == "scan":
                found.append(e)
            for v in e.params.values():
                for j in (v if isinstance(v, (tuple, list)) else (v,)):
                    jp = getattr(j, "jaxpr", j)
                    if hasattr(jp, "eqns"):
                        walk(jp)
    walk(T.closed.jaxpr)
    for n, e in enumerate(found):
        body, bconsts = sj._closed(e.params["jaxpr"])
        copies = []
        shared = {}
        for tag in ("i", "j"):
            ctx = sj.Ctx()
            ins = []
            for vi, v in enumerate(body.invars):
                kind = sj.kind_of(v.aval.dtype)
                if kind in "iu" and v.aval.shape == ():
                    ins.append(sj.fresh_like((), v.aval.dtype, f"it{n}_{tag}_{vi}"))   # iteration-dependent ints differ
                else:
                    if vi not in shared:
                        shared[vi] = sj.fresh_like(v.aval.shape, v.aval.dtype, f"sc{n}_{vi}")
                    ins.append(shared[vi])
            try:
                sj.eval_jaxpr(ctx, body, bconsts, *ins)
            except sj.Unsupported as ex:
                g._rec(f"scan {n}: symbolic-index analysis", "inconclusive", detail=str(ex))
                copies = None
                break
            copies.append((ctx, ins))
        if not copies:
            continue
        (c1, in1), (c2, in2) = copies
        ints1 = [x.item() for x, v in zip(in1, body.invars) if sj.kind_of(v.aval.dtype) in "iu" and v.aval.shape == ()]
        ints2 = [x.item() for x, v in zip(in2, body.invars) if sj.kind_of(v.aval.dtype) in "iu" and v.aval.shape == ()]
        if not ints1:
            continue
        # the index that Seed folds in is one of the scalar int inputs: assume ALL scalar ints are equal except
        # that at least the folded one differs -> assume every pair differs (iteration counter) is too strong;
        # use: the int that appears as fold data differs
        fold_data = [c[3] for c in c1.consumed if c[0] == "fold"]
        b1 = [c[1] for c in c1.consumed if c[0] == "bits"]
        b2 = [c[1] for c in c2.consumed if c[0] == "bits"]
        if not b1:
            continue
        differ = z3.Or(*[a != b for a, b in zip(ints1, ints2)])
        same_others = []
        goal = z3.And(*[x != y for x in b1 for y in b2])
        # only the folded index differs between iterations
        fold_ints = [a for a in ints1 if any(keys_contains(fd, a) for fd in fold_data)]
        assum = [a != b for a, b in zip(ints1, ints2) if any(a.eq(f) for f in fold_ints)]
        assum += [a == b for a, b in zip(ints1, ints2) if not any(a.eq(f) for f in fold_ints)]
        if not fold_ints:
            g.ok(f"scan {n}: the iteration index is folded into the key", False, "no fold_in of a scan-varying integer")
            continue
        g.holds(f"scan {n}: iterations i != j draw from different keys (symbolic index: every scan length)", goal, assum)


def keys_contains(t, a):
    return any(c.eq(a) for c in keys.subterms(t))


def shared_key_twin(g):
    """seeded-fault twin: a sampler pair that re-uses one key must be refuted by the hygiene query"""
    def bad(key):
        return jax.random.normal(key), jax.random.uniform(key)
    T = sj.sym_trace(bad, jax.random.key(0))
    goals = keys.hygiene_goals(T.ctx.consumed)
    r = solve.prove(z3.And(*[gl for _, gl in goals])) if goals else None
    ok = r is not None and r.verdict == "sat"
    g.fault_twins_ok += int(ok)
    if ok:
        g._rec("teeth: a key used for two draws is refuted by the hygiene query", "proved", time=r.time)
    else:
        g._rec("fault-twin:shared_key", "error", detail="key reuse not detected")
