"""C18: chain returns exactly the burnt-in, thinned kernel iterates and diagnostics."""
from __future__ import annotations

import numpy as np
import z3

import jax
import jax.numpy as jnp

from .. import symjax as sj, refsem as rs, corpus, gfi, solve

FUNCTIONS = ["chain.run_chain (single- and multi-chain path)", "State.eval_jaxpr_state (scan case)", "state", "save", "modular_vmap", "MCMCResult"]
BOUNDS = {"n_steps": "<= 4 (5 thorough)", "grid": "every (burn_in, thin) with a non-empty result", "n_chains": "1 and 2 (two chains also with burn-in and thinning: (n, burn, thin) = (4,1,2), (4,0,3), (3,1,1))",
          "kernels": "mh, mala, a composite kernel that applies two kernels and saves two diagnostics, a sweep kernel whose diagnostics are saved inside an inner scan", "model": "two_normals / nested"}
ASSUMPTIONS = ["'same key' = the same outcome variables: sites are identified by (scan iteration, order)"]
EXPLANATION = "chain traced for the grid and for the un-thinned run on shared outcome variables; slices compared leaf by leaf; un-thinned run compared with the hand-iterated kernel; chain lanes compared with the single chain"


def kernels():
    from genjax import sel
    from genjax.inference import mh, mala
    from genjax.state import save

    def k_mh(t):
        return mh(t, sel("x"))

    def k_mala(t):
        return mala(t, sel("x"), 0.5)

    def k_two(t):
        t = mh(t, sel("x"))
        save(first=t.get_score())
        t = mala(t, sel("y"), 0.25)
        return t

    def k_sweep(t):
        # a composite kernel whose diagnostics are saved ONLY inside an inner scan (a sweep of two mh moves)
        import jax
        return jax.lax.scan(lambda tr, _: (mh(tr, sel("x")), None), t, None, length=2)[0]
    return {"mh": k_mh, "mala": k_mala, "composite": k_two, "sweep": k_sweep}


def groups(tier, seed):
    n = 5 if tier == "thorough" else 4
    gs = []
    for k in ("mh", "mala", "composite"):
        gs.append(f"slice:{k}:{n if k == 'mh' else 3}")
        gs.append(f"iterate:{k}:3")
    gs += ["chains:mh:3", "chains:mala:2", "slice:sweep:3", "iterate:sweep:2", "chains:mh:4:1:2", "chains:mh:4:0:3", "chains:mh:3:1:1"]
    return gs


def occurrence_scripted(store, prefix="q"):
    cnt = [0]

    def scripted(sid, k, aval, inner):
        if k == 0:
            cnt[0] += 1
        key = (cnt[0] - 1, k)
        if key not in store:
            store[key] = sj.fresh_like(aval.shape, aval.dtype, f"{prefix}{key[0]}_{k}")
        return store[key]
    return scripted


def run_group(g, gid):
    from genjax import const, state as gstate
    from genjax.inference import chain
    kind, kname, n, *bt = gid.split(":")
    n = int(n)
    burn, thin = (int(bt[0]), int(bt[1])) if bt else (0, 1)
    kept = len(range(burn, n, thin))
    case = corpus.get("two_normals")
    gf = rs.to_genjax(case.prog)
    tr0 = gfi.example_trace(gf, case.args, case.kwargs)
    kern = kernels()[kname]
    g.programs.add(f"chain({kname}) on two_normals")

    def run(b, t, c=1):
        return lambda tr: chain(kern)(tr, const(n), burn_in=const(b), autocorrelation_resampling=const(t), n_chains=const(c))
    if kind == "slice":
        full = g.try_trace(f"chain({kname}) un-thinned traces", run(0, 1), tr0)
        if full is None:
            return
        F = full.outs
        for b in range(0, n):
            for t in range(1, n + 1):
                idx = list(range(b, n, t))
                if not idx or (b, t) == (0, 1):
                    continue
                T = g.try_trace(f"chain burn_in={b} thin={t} traces", run(b, t), tr0, sym_in=full.flat_in)
                if T is None:
                    continue
                R = T.outs
                want = jax.tree_util.tree_map(lambda l: sj.obj(l)[idx], F.traces, is_leaf=rs._isarr)
                tag = f"n_steps={n} burn_in={b} thin={t}"
                g.eq(f"{tag}: traces == states after steps {idx} of the un-thinned run (same outcomes)", R.traces, want)
                g.eq(f"{tag}: accepts == accept decisions of the retained steps", R.accepts, sj.obj(F.accepts)[idx])
                acc = [sj.s_real(a) for a in sj.terms(R.accepts)]
                g.holds(f"{tag}: acceptance_rate == mean(accepts)", sj.unlog(sj.obj(R.acceptance_rate).item()) == sum(acc) / len(acc))
                g.ok(f"{tag}: n_steps counts the retained states", R.n_steps.value == len(idx), f"{R.n_steps.value} vs {len(idx)}")
        g.ok("un-thinned: n_steps == number of kernel steps", F.n_steps.value == n)
        return
    if kind == "iterate":
        store = {}
        full = g.try_trace(f"chain({kname}) un-thinned traces", run(0, 1), tr0, scripted=occurrence_scripted(store))
        if full is None:
            return

        def hand(tr):
            outs, accs = [], []
            t = tr
            for _ in range(n):
                t, saved = gstate(kern)(t)
                outs.append(t)
                accs.append(saved["accept"])
            return outs, accs
        H = g.try_trace("hand-iterated kernel traces", hand, tr0, sym_in=full.flat_in, scripted=occurrence_scripted(store))
        if H is None:
            return
        outs, accs = H.outs
        F = full.outs
        for k in range(n):
            g.eq(f"state {k} of chain == kernel applied {k + 1} time(s) to the initial trace", rs.index_tree(rs.canon_trace(F.traces), k),
                 rs.canon_trace(outs[k]))
            g.eq(f"accepts[{k}] == the kernel's accept decision at step {k + 1}", sj.obj(sj.obj(F.accepts)[k]), accs[k])
        return
    if kind == "chains":
        C = 2
        multi = g.try_trace(f"chain({kname}) n_chains=2 burn_in={burn} thin={thin} traces", run(burn, thin, C), tr0)
        if multi is None:
            return
        M = multi.outs
        leaves = jax.tree_util.tree_leaves(M.traces, is_leaf=rs._isarr)
        g.ok("n_chains=2: every trace leaf and accepts carry a leading chain axis",
             all(sj.obj(l).shape[:2] == (C, kept) for l in leaves) and sj.obj(M.accepts).shape == (C, kept),
             str([sj.obj(l).shape for l in leaves][:4]))
        sites = multi.sites
        used = []
        for c in range(C):
            order = [0]

            def scripted(sid, k, aval, inner, c=c, order=order):
                s = sites[order[0]]
                if k == len(s.outs) - 1:
                    order[0] += 1
                o = sj.obj(s.outs[k])
                return sj.obj(o[c]) if o.ndim > len(aval.shape) else o
            single = g.try_trace(f"single chain traces (lane {c})", run(burn, thin, 1), tr0, sym_in=multi.flat_in, scripted=scripted)
            if single is None:
                return
            S = single.outs
            g.eq(f"chain lane {c} == the single-chain run on lane {c}'s own outcome variables",
                 rs.index_tree(rs.canon_trace(M.traces), c), rs.canon_trace(S.traces))
            g.eq(f"chain lane {c}: accepts", sj.obj(sj.obj(M.accepts)[c]), S.accepts)
        # lanes use distinct outcome variables: every site's output has a leading axis of size C of distinct variables
        ok = all(sj.obj(s.outs[0]).shape[:1] == (C,) and len({str(t) for t in sj.terms(s.outs[0])}) == sj.obj(s.outs[0]).size for s in sites)
        g.ok("chains draw independent randomness (every site yields distinct variables per chain)", ok,
             str([(s.name, sj.obj(s.outs[0]).shape) for s in sites][:4]))
        acc = [sj.s_real(a) for a in sj.terms(M.accepts)]
        g.holds("n_chains=2: acceptance_rate == mean over chains and steps", sj.unlog(sj.obj(M.acceptance_rate).item()) == sum(acc) / len(acc))
        g.ok("n_chains=2: n_steps counts the retained states per chain", M.n_steps.value == kept and M.n_chains.value == C,
             f"n_steps={M.n_steps.value} retained={kept}")
