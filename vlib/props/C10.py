"""C10: SMC particles are properly weighted; the evidence estimate is unbiased."""
from __future__ import annotations

import numpy as np
import z3

import jax
import jax.numpy as jnp

from .. import symjax as sj, refsem as rs, gfi, solve
from ..refsem import Dist, Fn, Sample, Let
from .C02 import ref_weight

FUNCTIONS = ["init", "extend", "change", "rejuvenate", "resample", "ParticleCollection.log_marginal_likelihood/estimate/effective_sample_size",
             "_create_particle_collection", "rejuvenation_smc", "modular_vmap", "Fn.merge"]
BOUNDS = {"N": "particle counts 1..3 (thorough: up to 4, rejuvenation_smc with N = 3)", "T": "rejuvenation_smc with 2 observations (one extend step), N = 2", "model": "step model x ~ N(prev, 1), y ~ N(x, 1/2), return x; custom proposals x ~ N(mix of obs and prev, 1); a two-latent step model with PARTIAL custom proposals (the model samples the other latent itself)",
          "values": "all observation values, arguments, previous weights/particles and random outcomes"}
ASSUMPTIONS = ["input particle collection: arbitrary log weights and an arbitrary coherent vectorised trace",
               "unbiasedness of exp(log_marginal_likelihood()) is the corollary of per-particle proper weighting (proved here), independence of the draws (site laws) and C12/C09",
               "log-domain mode for logsumexp-based quantities"]
EXPLANATION = "each SMC move traced from a symbolic particle collection; per-particle weight identity against the reference densities of model and proposal"

normal = Dist("normal")
MODEL = Fn("step_model", ["prev"], [Sample("x", "x", normal, ["prev", "1.0"]), Sample("y", "y", normal, ["x", "0.5"])], "x")
INIT_PROP = Fn("init_proposal", ["obs", "prev"], [Sample("x", "x", normal, ["obs['y'] * 0.5 + prev * 0.5", "1.0"])], "x")
EXT_PROP = Fn("ext_proposal", ["obs", "old", "prev"], [Sample("x", "x", normal, ["obs['y'] * 0.5 + prev * 0.25 + old['x'] * 0.25", "1.0"])], "x")


# a step model with TWO latents and proposals that propose only ONE of them (the model samples the other itself)
MODEL2 = Fn("step_model2", ["prev"], [Sample("a", "a", normal, ["prev", "1.0"]), Sample("b", "b", normal, ["a", "0.75"]),
                                      Sample("y", "y", normal, ["a + b", "0.5"])], "a")
INIT_PROP2 = Fn("init_proposal2", ["obs", "prev"], [Sample("a", "a", normal, ["obs['y'] * 0.5 + prev * 0.5", "1.0"])], "a")
EXT_PROP2 = Fn("ext_proposal2", ["obs", "old", "prev"], [Sample("a", "a", normal, ["obs['y'] * 0.5 + prev * 0.25 + old['a'] * 0.25", "1.0"])], "a")


def groups(tier, seed):
    Ns = (1, 2, 3)
    gs = ["init_partial:2", "extend_partial:2", "extend_partial:1"]
    for n in Ns:
        gs += [f"init_default:{n}", f"init_custom:{n}", f"extend_default:{n}", f"extend_custom:{n}"]
    gs += ["rejuvenate:2", "change:2", "lml:3", "estimate:2", "rsmc:2"]
    if tier == "thorough":
        gs += ["init_default:4", "init_custom:4", "extend_default:4", "extend_custom:4", "init_partial:3", "extend_partial:3", "rejuvenate:3",
               "change:3", "lml:4", "estimate:3", "rsmc:3"]
    return gs


def lane(tree, i):
    return rs.index_tree(tree, i)


def example_particles(N):
    from genjax.inference import smc
    from genjax import const
    gf = rs.to_genjax(MODEL)
    shp = jax.eval_shape(lambda: smc.init(gf, (jnp.float32(0.1),), const(N), {"y": jnp.float32(0.5)}))
    return gfi.zeros_like_shape(shp)


def coherent_particles(g, p_s, N):
    """assume every lane of the particle collection's trace is a coherent trace of MODEL"""
    inv = []
    refs = []
    c = rs.canon_trace(p_s.traces)
    for i in range(N):
        ci = lane(c, i)
        a, kw = rs.args_of_canon(ci)
        ref = rs.ref_eval(MODEL, rs.state_of_canon(ci), list(a), dict(kw), rs.RefCtx())
        inv.append(solve.eq_trees(ci, ref.canon()))
        refs.append(ref)
    return inv, refs


def run_group(g, gid):
    from genjax.inference import smc
    from genjax import const, sel
    kind, _, n = gid.partition(":")
    N = int(n)
    if kind in ("init_partial", "extend_partial"):
        return partial_proposal(g, kind, N)
    gf = rs.to_genjax(MODEL)
    ip = rs.to_genjax(INIT_PROP)
    ep = rs.to_genjax(EXT_PROP)
    g.programs.add(kind)
    g.sample(model=rs.source(MODEL), move=gid)
    obs = {"y": jnp.float32(0.5)}
    if kind in ("init_default", "init_custom"):
        prop = ip if kind == "init_custom" else None
        T = g.try_trace(f"{kind} traces", lambda o, a: smc.init(gf, (a,), const(N), o, prop), obs, jnp.float32(0.1))
        if T is None:
            return
        o_s, a_s = T.ins
        P = T.outs
        c = rs.canon_trace(P.traces)
        for i in range(N):
            ci = lane(c, i)
            rctx = rs.RefCtx()
            ref = rs.ref_eval(MODEL, rs.state_of_canon(ci), [a_s], {}, rctx)
            g.eq(f"N={N} particle {i}: coherent trace of the model holding the observation", ci, ref.canon())
            g.eq(f"N={N} particle {i}: observation unchanged", ref.get_choices()["y"], o_s["y"])
            xval = ref.get_choices()["x"]
            if prop is None:
                w_ref = ref_weight(MODEL, ref, lambda p: p == ("y",))
            else:
                q = rs.ref_eval(INIT_PROP, {"x": xval}, [o_s, a_s], {}, rs.RefCtx())
                w_ref = gfi.add(gfi.neg(ref.get_score()), q.get_score())     # log p(x, y) - log q(x)
            g.eq(f"N={N} particle {i}: log weight == log p(choices, obs) - log q(proposed choices)", sj.obj(P.log_weights)[i], w_ref)
        check_lane_draws(g, T, c, N, (a_s if prop is None else None), o_s, a_s, prop is not None, f"N={N}")
        g.eq(f"N={N}: log_marginal_estimate starts at 0", P.log_marginal_estimate, sj.obj(sj.RV(0)))
        return
    p0 = example_particles(N)
    if kind in ("extend_default", "extend_custom"):
        prop = ep if kind == "extend_custom" else None
        T = g.try_trace(f"{kind} traces", lambda p, args, o: smc.extend(p, gf, args, o, prop), p0, jnp.zeros(N, jnp.float32), obs)
        if T is None:
            return
        p_s, args_s, o_s = T.ins
        Q = T.outs
        inv, old_refs = coherent_particles(g, p_s, N)
        g.assume(*inv)
        c = rs.canon_trace(Q.traces)
        for i in range(N):
            ci = lane(c, i)
            ai = sj.obj(sj.obj(args_s)[i])
            ref = rs.ref_eval(MODEL, rs.state_of_canon(ci), [ai], {}, rs.RefCtx())
            g.eq(f"N={N} particle {i}: extended trace is a coherent trace of the model on particle i's argument", ci, ref.canon())
            g.eq(f"N={N} particle {i}: observation unchanged", ref.get_choices()["y"], o_s["y"])
            if prop is None:
                inc = ref_weight(MODEL, ref, lambda p: p == ("y",))
            else:
                q = rs.ref_eval(EXT_PROP, {"x": ref.get_choices()["x"]}, [o_s, old_refs[i].get_choices(), ai], {}, rs.RefCtx())
                inc = gfi.add(gfi.neg(ref.get_score()), q.get_score())
            g.eq(f"N={N} particle {i}: new log weight == old log weight + log p(new choices, obs) - log q(proposed)",
                 sj.obj(Q.log_weights)[i], gfi.add(sj.obj(sj.obj(p_s.log_weights)[i]), inc))
            if i == 0:
                g.fault_twin("weight-forgets-old-weight", solve.eq_arrays(sj.obj(Q.log_weights)[i], inc))
        g.eq(f"N={N}: accumulated estimate carried over", Q.log_marginal_estimate, p_s.log_marginal_estimate)
        return
    if kind == "rejuvenate":
        from genjax.inference import mh
        T = g.try_trace("rejuvenate(mh) traces", lambda p: smc.rejuvenate(p, lambda t: mh(t, sel("x"))), p0)
        if T is None:
            return
        (p_s,) = T.ins
        Q = T.outs
        inv, _ = coherent_particles(g, p_s, N)
        g.assume(*inv)
        same = lambda a, b: all(x.eq(y) for x, y in zip(sj.terms(a), sj.terms(b)))
        g.ok("rejuvenation leaves log weights untouched (same terms)", same(Q.log_weights, p_s.log_weights))
        g.ok("rejuvenation leaves diagnostic weights untouched", same(Q.diagnostic_weights, p_s.diagnostic_weights))
        g.ok("rejuvenation leaves the accumulated estimate untouched", same(Q.log_marginal_estimate, p_s.log_marginal_estimate))
        c = rs.canon_trace(Q.traces)
        for i in range(N):
            ci = lane(c, i)
            a, kw = rs.args_of_canon(ci)
            ref = rs.ref_eval(MODEL, rs.state_of_canon(ci), list(a), dict(kw), rs.RefCtx())
            g.eq(f"particle {i} stays a coherent trace after the kernel", ci, ref.canon())
            g.eq(f"particle {i}: observed y untouched", ref.get_choices()["y"], lane(rs.canon_trace(p_s.traces), i)["choices"]["y"]["choices"])
        return
    if kind == "change":
        T = g.try_trace("change traces", lambda p, a: smc.change(p, gf, (a,), lambda ch: {"x": ch["x"], "y": ch["y"]}), p0, jnp.float32(0.3))
        if T is None:
            return
        p_s, a_s = T.ins
        Q = T.outs
        inv, old_refs = coherent_particles(g, p_s, N)
        g.assume(*inv)
        c = rs.canon_trace(Q.traces)
        for i in range(N):
            ci = lane(c, i)
            ref = rs.ref_eval(MODEL, old_refs[i].get_choices(), [a_s], {}, rs.RefCtx())
            g.eq(f"particle {i}: translated trace holds the same choices under the new target", ci, ref.canon())
            g.eq(f"particle {i}: weight accumulates log p_new(choices)", sj.obj(Q.log_weights)[i],
                 gfi.add(sj.obj(sj.obj(p_s.log_weights)[i]), gfi.neg(ref.get_score())))
        return
    if kind == "lml":
        P = [z3.Real(f"P{i}") for i in range(N)]
        M = z3.Real("M")
        flat, td = jax.tree_util.tree_flatten(p0)
        names = [jax.tree_util.keystr(k) for k, _ in jax.tree_util.tree_flatten_with_path(p0)[0]]
        sym_in = []
        for i, (nm, leaf) in enumerate(zip(names, flat)):
            if nm.endswith("log_weights"):
                sym_in.append(np.array([sj.LogV(p) for p in P], dtype=object))
            elif nm.endswith("log_marginal_estimate"):
                sym_in.append(sj.obj(sj.LogV(M)))
            else:
                sym_in.append(sj.fresh_like(leaf.shape, leaf.dtype, f"t{i}"))
        T = g.try_trace("log_marginal_likelihood / ESS traces", lambda p: (p.log_marginal_likelihood(), p.effective_sample_size()), p0,
                        sym_in=sym_in, logmode=True)
        if T is None:
            return
        lml, ess = T.outs
        A = [p > 0 for p in P] + [M > 0]
        g.eq("log_marginal_likelihood == accumulated + log mean exp(log weights)", lml, sj.obj(sj.LogV(M * sum(P) / N)), A)
        S2 = sum(p * p for p in P)
        g.holds("effective_sample_size == (sum w)^2 / sum w^2", sj.unlog(sj.obj(ess).item()) == (sum(P) * sum(P)) / S2, A)
        return
    if kind == "estimate":
        P = [z3.Real(f"P{i}") for i in range(N)]
        flat, td = jax.tree_util.tree_flatten(p0)
        names = [jax.tree_util.keystr(k) for k, _ in jax.tree_util.tree_flatten_with_path(p0)[0]]
        sym_in = []
        for i, (nm, leaf) in enumerate(zip(names, flat)):
            if nm.endswith("log_weights"):
                sym_in.append(np.array([sj.LogV(p) for p in P], dtype=object))
            else:
                sym_in.append(sj.fresh_like(leaf.shape, leaf.dtype, f"t{i}"))
        T = g.try_trace("estimate traces", lambda p: p.estimate(lambda ch: ch["x"] * ch["x"] + ch["y"]), p0, sym_in=sym_in, logmode=True)
        if T is None:
            return
        (p_s,) = T.ins
        ch = p_s.traces.get_choices() if hasattr(p_s.traces, "get_choices") else None
        c = rs.canon_trace(p_s.traces)
        xs = [sj.unlog(lane(c, i)["choices"]["x"]["choices"].item()) for i in range(N)]
        ys = [sj.unlog(lane(c, i)["choices"]["y"]["choices"].item()) for i in range(N)]
        want = sum(P[i] * (xs[i] * xs[i] + ys[i]) for i in range(N)) / sum(P)
        g.holds("estimate(f) == sum_i w_i f(choices_i) / sum_i w_i", sj.unlog(sj.obj(T.outs).item()) == want, [p > 0 for p in P])
        return
    if kind == "rsmc":
        return rsmc(g, N)


def check_lane_draws(g, T, c, N, prev, o_s, a_s, custom, tag):
    """the proposed x of the N particles are N distinct outcome variables of normal sites with the right parameters"""
    vm = gfi.var_site_map(T)
    seen = set()
    ok, why = True, ""
    goals = []
    for i in range(N):
        x = lane(c, i)["choices"]["x"]["choices"].item()
        nm = str(x)
        if not z3.is_const(x) or nm not in vm:
            ok, why = False, f"particle {i}: x is not a fresh draw"
            break
        if nm in seen:
            ok, why = False, "two particles share one draw"
            break
        seen.add(nm)
        site, k, oidx = vm[nm]
        sa, _ = gfi._site_args(site)
        if (site.name or "").lower() != "normal":
            ok, why = False, f"family {site.name}"
            break
        mean = sj.obj(sa[0])
        mean_i = mean[oidx[len(site.sample_shape):]] if mean.ndim else mean
        want = sj.unlog(a_s.item()) if not custom else (sj.unlog(o_s["y"].item()) * sj.RV(0.5) + sj.unlog(a_s.item()) * sj.RV(0.5))
        goals.append(sj.unlog(sj.obj(mean_i).item()) == want)
        goals.append(sj.unlog(sj.obj(sa[1]).ravel()[0]) == 1)
    if ok:
        g.holds(f"{tag}: each particle's x is its own draw from the proposal (N independent draws, right parameters)", z3.And(*goals))
    else:
        g.ok(f"{tag}: each particle's x is its own draw from the proposal (N independent draws, right parameters)", False, why)


def rsmc(g, N):
    """rejuvenation_smc (ESS-triggered resampling inside cond, scan over observations) == hand composition
    init -> [resample if ESS < N//2] -> extend -> [resample ...], step by step, on shared outcome variables"""
    from genjax.inference import smc
    from genjax import const
    gf = rs.to_genjax(MODEL)
    obs = {"y": jnp.asarray([0.5, -0.25], dtype=jnp.float32)}

    def real(o, a):
        return smc.rejuvenation_smc(gf, None, None, o, (a,), const(N), const(False))

    def hand(o, a):
        p = smc.init(gf, (a,), const(N), {"y": o["y"][0]})
        p = jax.lax.cond(p.effective_sample_size() < N // 2, lambda q: smc.resample(q), lambda q: q, p)
        p = smc.extend(p, gf, p.traces.get_retval(), {"y": o["y"][1]})
        p = jax.lax.cond(p.effective_sample_size() < N // 2, lambda q: smc.resample(q), lambda q: q, p)
        return p
    store = {}

    def scripted_factory():
        cnt = [0]

        def scripted(sid, k, aval, inner):
            key = (cnt[0], k)
            if k == 0:
                cnt[0] += 1
            key = (cnt[0] - 1, k)
            if key not in store:
                store[key] = sj.fresh_like(aval.shape, aval.dtype, f"s{key[0]}_{k}")
            return store[key]
        return scripted
    T1 = g.try_trace("rejuvenation_smc traces", real, obs, jnp.float32(0.1), scripted=scripted_factory())
    if T1 is None:
        return
    T2 = g.try_trace("hand composition traces", hand, obs, jnp.float32(0.1), sym_in=T1.flat_in, scripted=scripted_factory())
    if T2 is None:
        return
    T1.no_validate = True
    T2.no_validate = True
    A = []
    for s in T1.sites:
        if (s.name or "").lower() == "categorical":
            A += [z3.And(t >= 0, t < N) for t in sj.terms(s.outs[0])]
    g.ok("same sequence of sampling sites", [(s.name, s.sample_shape) for s in T1.sites] == [(s.name, s.sample_shape) for s in T2.sites],
         str([(s.name, s.sample_shape) for s in T1.sites]) + " vs " + str([(s.name, s.sample_shape) for s in T2.sites]))
    P1, P2 = T1.outs, T2.outs
    g.eq("rejuvenation_smc: final log weights == hand-composed pipeline", P1.log_weights, P2.log_weights, A)
    g.eq("rejuvenation_smc: accumulated estimate == hand-composed pipeline", P1.log_marginal_estimate, P2.log_marginal_estimate, A)
    g.eq("rejuvenation_smc: final traces == hand-composed pipeline", rs.canon_trace(P1.traces), rs.canon_trace(P2.traces), A)


def partial_proposal(g, kind, N):
    """user-supplied proposals that cover only part of the new latents: the model samples the rest from its own
    conditional prior, whose density cancels; log w = log p(all choices, obs) - log q(proposed) - log p(self-sampled | parents)"""
    from genjax.inference import smc
    from genjax import const
    gf, ip, ep = rs.to_genjax(MODEL2), rs.to_genjax(INIT_PROP2), rs.to_genjax(EXT_PROP2)
    g.programs.add(kind)
    g.sample(model=rs.source(MODEL2), proposal=rs.source(INIT_PROP2 if kind == "init_partial" else EXT_PROP2), move=kind)
    obs = {"y": jnp.float32(0.5)}
    cov = lambda p: p in (("a",), ("y",))          # addresses fixed by proposal / observation; b is drawn by the model
    if kind == "init_partial":
        T = g.try_trace("init with a partial proposal traces", lambda o, a: smc.init(gf, (a,), const(N), o, ip), obs, jnp.float32(0.1))
        if T is None:
            return
        o_s, a_s = T.ins
        Q, old_w, old_refs, args_of = T.outs, None, None, lambda i: a_s
    else:
        shp = jax.eval_shape(lambda: smc.init(gf, (jnp.float32(0.1),), const(N), {"y": jnp.float32(0.5)}))
        p0 = gfi.zeros_like_shape(shp)
        T = g.try_trace("extend with a partial proposal traces", lambda p, args, o: smc.extend(p, gf, args, o, ep), p0, jnp.zeros(N, jnp.float32), obs)
        if T is None:
            return
        p_s, args_s, o_s = T.ins
        Q = T.outs
        c0 = rs.canon_trace(p_s.traces)
        inv, old_refs = [], []
        for i in range(N):
            ci = lane(c0, i)
            a, kw = rs.args_of_canon(ci)
            ref = rs.ref_eval(MODEL2, rs.state_of_canon(ci), list(a), dict(kw), rs.RefCtx())
            inv.append(solve.eq_trees(ci, ref.canon()))
            old_refs.append(ref)
        g.assume(*inv)
        old_w = p_s.log_weights
        args_of = lambda i: sj.obj(sj.obj(args_s)[i])
    c = rs.canon_trace(Q.traces)
    vm = gfi.var_site_map(T)
    seen = set()
    for i in range(N):
        ci = lane(c, i)
        ai = args_of(i)
        rctx = rs.RefCtx()
        ref = rs.ref_eval(MODEL2, rs.state_of_canon(ci), [ai], {}, rctx)
        g.eq(f"N={N} particle {i}: coherent trace of the model holding the observation", ci, ref.canon())
        g.eq(f"N={N} particle {i}: observation unchanged", ref.get_choices()["y"], o_s["y"])
        aval = ref.get_choices()["a"]
        if kind == "init_partial":
            q = rs.ref_eval(INIT_PROP2, {"a": aval}, [o_s, ai], {}, rs.RefCtx())
        else:
            q = rs.ref_eval(EXT_PROP2, {"a": aval}, [o_s, old_refs[i].get_choices(), ai], {}, rs.RefCtx())
        inc = gfi.add(ref_weight(MODEL2, ref, cov), q.get_score())          # log p(a) + log p(y | a, b) - log q(a)
        want = inc if old_w is None else gfi.add(sj.obj(sj.obj(old_w)[i]), inc)
        g.eq(f"N={N} particle {i}: log weight == (old weight +) log p(choices, obs) - log q(proposed a) - log p(b | a): the self-sampled latent cancels",
             sj.obj(Q.log_weights)[i], want)
        if i == 0:
            g.fault_twin("weight-is-minus-score", solve.eq_arrays(sj.obj(Q.log_weights)[i],
                                                                  gfi.neg(ref.get_score()) if old_w is None else gfi.add(sj.obj(sj.obj(old_w)[i]), gfi.neg(ref.get_score()))))
        # laws: a is the proposal's draw, b the model's own draw given a; both one per particle
        for addr, mean_want, sd in (("a", sj.unlog(q.choices["a"].args[0][0].item()), 1), ("b", sj.unlog(aval.item()), sj.RV(0.75))):
            x = sj.obj(ref.get_choices()[addr]).item()
            nm = str(x)
            fresh = z3.is_const(x) and nm in vm and nm not in seen
            g.ok(f"N={N} particle {i}: {addr} is this particle's own draw", fresh, nm)
            if not fresh:
                continue
            seen.add(nm)
            site, k, oidx = vm[nm]
            sa, _ = gfi._site_args(site)
            mean = sj.obj(sa[0])
            mean_i = mean[oidx[len(site.sample_shape):]] if mean.ndim else mean
            sdv = sj.obj(sa[1])
            sd_i = sdv[oidx[len(site.sample_shape):]] if sdv.ndim else sdv
            g.holds(f"N={N} particle {i}: {addr} ~ normal with the {'proposal' if addr == 'a' else 'model'}'s parameters",
                    z3.And(sj.unlog(sj.obj(mean_i).item()) == mean_want, sj.unlog(sj.obj(sd_i).item()) == sd))
