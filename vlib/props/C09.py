"""C09: mh, mala and hmc are reversible with respect to the posterior.

One kernel step from an arbitrary coherent trace; the kernel's internal randomness (proposal noise,
momentum, accept uniform) are outcome variables.  The proposal actually drawn and the acceptance
decision actually applied are proved equal to the Metropolis-Hastings rule for that proposal computed
from the reference density (refsem; its gradient is jax.grad of an independent pure-JAX evaluator)."""
from __future__ import annotations

import numpy as np
import z3

import jax
import jax.numpy as jnp

from .. import symjax as sj, refsem as rs, corpus, gfi, solve, selspec
from .C02 import ref_weight
from .C03 import coherent_pre
from .C04 import cond_checks, state_leaves

FUNCTIONS = ["mh", "mala", "hmc", "_create_log_density_wrt_selected", "Fn.filter/merge", "*.regenerate", "*.update", "*.assess",
             "state/save (accept diagnostic)"]
BOUNDS = {"targets": "corpus programs with continuous sites: two_normals, nested, vmapped (array-valued address via Vmap), scanned, branching (Cond), vector_site; mixed (mh only)",
          "selections": "single leaves, pairs, all, sub-calls; the mixture-indicator move (selection = the choice deciding a Cond whose own choices are observed)",
          "static kernel parameters": "step_size in {1/2, 1/4}, n_steps in {1, 2} (the API type-checks them as Python numbers: enumerated)",
          "pre-state": "arbitrary coherent trace; all kernel noise values universally quantified",
          "NaN/inf aware groups": "mh, mala (step 1/2), hmc (step 1/2, 2 leapfrog steps) on s ~ N(1,1), y ~ N(0, s): every finite current state with s > 0, all noise values, all thresholds in (0,1)"}
ASSUMPTIONS = ["detailed balance / invariance then follow from the Metropolis-Hastings theorem for that proposal and ratio (mathematics, not re-proved)",
               "mixture-indicator move: the Cond's own choices are observed, i.e. both stored branch values are the observed value",
               "switching a Cond that still has unobserved choices of its own is outside the claim (Cond conditions assumed equal there)"]
EXPLANATION = "per kernel and selection: rejected move returns the input trace term-for-term; proposal and log acceptance ratio equal the reference MH rule for all traces and noises"

MH_SEL = {
    "two_normals": ["x", "y", "x|y"], "nested": ["a", "sub/z", "ALL"], "mixed": ["b", "e", "y"], "vmapped": ["v/x", "y"],
    "scanned": ["a", "s/z"], "branching": ["a", "c/v", "ALL"], "vector_site": ["x", "k"], "kw": ["x"],
}
GRAD_SEL = {
    "two_normals": ["x", "x|y"], "nested": ["a", "sub/z"], "vmapped": ["v/x"], "scanned": ["s/z", "a"], "branching": ["c/v", "a"],
    "vector_site": ["x"], "kw": ["x"],
}


def parse_sel(txt):
    if txt == "ALL":
        return selspec.ALL
    parts = [selspec.leaf_sel(tuple(t.split("/"))) for t in txt.split("|")]
    s = parts[0]
    for p in parts[1:]:
        s = selspec.Or(s, p)
    return s


def groups(tier, seed):
    gs = ["nan:mh", "nan:mala", "nan:hmc"]
    for n, sels in MH_SEL.items():
        gs += [f"mh:{n}:{s}" for s in sels]
    for n, sels in GRAD_SEL.items():
        for s in sels:
            gs.append(f"mala:{n}:{s}:0.5")
            gs.append(f"hmc:{n}:{s}:0.5:1")
    gs += ["mala:two_normals:x:0.25", "hmc:two_normals:x:0.25:2", "hmc:nested:a:0.5:2"]
    if tier == "thorough":
        gs += ["hmc:scanned:s/z:0.25:2", "hmc:vmapped:v/x:0.25:2", "mala:nested:sub/z:0.25", "hmc:two_normals:x|y:0.5:2"]
    return gs


def subst_tree(tree, a, b):
    def f(l):
        l = sj.obj(l)
        out = np.empty(l.shape, dtype=object)
        for idx in np.ndindex(l.shape):
            e = l[idx]
            out[idx] = sj.LogV(z3.simplify(z3.substitute(e.P, (a, b)))) if isinstance(e, sj.LogV) else z3.simplify(z3.substitute(e, (a, b)))
        return out
    return jax.tree_util.tree_map(f, tree, is_leaf=rs._isarr)


def same_terms(a, b):
    la = jax.tree_util.tree_leaves(a, is_leaf=rs._isarr)
    lb = jax.tree_util.tree_leaves(b, is_leaf=rs._isarr)
    if len(la) != len(lb):
        return False
    for x, y in zip(la, lb):
        x, y = sj.obj(x), sj.obj(y)
        if x.shape != y.shape:
            return False
        for u, v in zip(sj.terms(x), sj.terms(y)):
            if not z3.simplify(u).eq(z3.simplify(v)):
                return False
    return True


def cond_states_equal(st, acc=None):
    acc = [] if acc is None else acc
    if isinstance(st, rs.CondState):
        acc.append(solve.eq_trees(st.a, st.b))
        cond_states_equal(st.a, acc)
        cond_states_equal(st.b, acc)
    elif isinstance(st, dict):
        for v in st.values():
            cond_states_equal(v, acc)
    return acc


def run_group(g, gid):
    if gid.startswith("nan:"):
        return nan_safety(g, gid.split(":")[1])
    from genjax import state as gstate
    from genjax.inference import mh, mala, hmc
    parts = gid.split(":")
    kern, name, seltxt = parts[0], parts[1], parts[2]
    case = corpus.get(name)
    gf = rs.to_genjax(case.prog)
    g.programs.add(case.name)
    spec = parse_sel(seltxt)
    s = spec.build()
    tr0 = gfi.example_trace(gf, case.args, case.kwargs)
    cm = gfi.example_choices(gf, case.args, case.kwargs)
    paths = gfi.leaf_paths(cm)
    if kern == "mh":
        k = lambda t: mh(t, s)
    elif kern == "mala":
        tau = float(parts[3])
        k = lambda t: mala(t, s, tau)
    else:
        tau, L = float(parts[3]), int(parts[4])
        k = lambda t: hmc(t, s, tau, L)
    tag = f"{kern}[{spec!r}]"
    T = g.try_trace(f"{tag} traces", lambda t: gstate(k)(t), tr0)
    g.sample(program=rs.source(case.prog), kernel=gid)
    if T is None:
        return
    (tr_s,) = T.ins
    final, saved = T.outs
    acc = sj.obj(saved["accept"]).item() if "accept" in saved else None
    g.ok(f"{tag}: saves its accept decision", acc is not None)
    if acc is None:
        return
    pre, state, a_old, kw_old, ref_old, inv = coherent_pre(case, tr_s)
    # the accept uniform
    us = [st for st in T.sites if (st.name or "").lower() == "uniform"]
    g.ok(f"{tag}: one accept uniform", len(us) == 1)
    u = sj.obj(us[-1].outs[0]).item()
    ua, _ = gfi._site_args(us[-1])
    dom = [u > 0, u < 1]
    g.holds(f"{tag}: accept threshold ~ uniform(0,1)", z3.And(solve.eq_arrays(ua[0], sj.obj(sj.RV(0))), solve.eq_arrays(ua[1], sj.obj(sj.RV(1)))))
    rejected = subst_tree(final, acc, z3.BoolVal(False))
    proposed = subst_tree(final, acc, z3.BoolVal(True))
    g.ok(f"{tag}: a rejected move returns the input trace unchanged (every leaf is the input term)",
         same_terms(rs.canon_trace(rejected), pre), "some leaf of the rejected result differs from the input")
    depends = any(any(c.eq(acc) for c in _subterms(t)) for t in sj.terms(final))
    old_leaves = state_leaves(case.prog, state)
    if kern == "mh":
        mh_group(g, T, case, tag, spec, acc, u, dom, proposed, pre, state, ref_old, inv, a_old, kw_old, old_leaves)
    else:
        grad_group(g, T, case, tag, spec, acc, u, dom, proposed, pre, state, ref_old, inv, a_old, kw_old, old_leaves,
                   kern, tau, (L if kern == "hmc" else None), paths)


def threshold_of(acc, u):
    """accept == (Log(u) < t): return t (the applied log acceptance ratio), else None"""
    if z3.is_lt(acc) and acc.arg(0).eq(sj.Log(u)):
        return acc.arg(1)
    return None


def _subterms(t):
    from ..keys import subterms
    return subterms(sj.unlog(t))


def mh_group(g, T, case, tag, spec, acc, u, dom, proposed, pre, state, ref_old, inv, a_old, kw_old, old_leaves):
    new_state = rs.state_of_canon(rs.canon_trace(proposed))
    rctx = rs.RefCtx()
    ref_new = rs.ref_eval(case.prog, new_state, list(a_old), dict(kw_old), rctx)
    A = inv + list(rctx.support) + dom
    sel_p = lambda p: spec.selected(p)
    for (p, o), (_, n) in zip(old_leaves, state_leaves(case.prog, new_state)):
        if not sel_p(p):
            same = o.shape == n.shape and all(x.eq(y) for x, y in zip(sj.terms(o), sj.terms(n)))
            g.ok(f"{tag}: unselected {'/'.join(p)} untouched by the proposal", same)
    gfi.site_law_obligations(g, T, rctx, f"{tag} proposal (regenerate from the prior)", lambda p, rec: sel_p(p), A)
    g.eq(f"{tag}: proposed trace is coherent", rs.canon_trace(proposed), ref_new.canon(), A)
    unsel = lambda p: not sel_p(p)
    w_ref = gfi.sub(ref_weight(case.prog, ref_new, unsel), ref_weight(case.prog, ref_old, unsel))
    # Cond: if the selection reaches into a Cond, its condition is assumed unchanged (outside the claim otherwise);
    # if the Cond's own choices are all unselected they are observed: both stored branch values equal
    extra = []
    checks_old, checks_new = cond_checks(ref_old, []), cond_checks(ref_new, [])
    cond_paths = _cond_prefixes(case.prog)
    for pref, (co, cn) in zip(cond_paths, zip(checks_old, checks_new)):
        inside_selected = any(sel_p(p) for p, _ in old_leaves if p[:len(pref)] == pref)
        if inside_selected:
            extra.append(solve.eq_arrays(co, cn))
    extra += cond_states_equal(state)
    wr = sj.unlog(w_ref.item())
    thr = threshold_of(acc, u)
    cs = [sj.unlog(c.item()) for c in checks_old + checks_new]
    if thr is not None:
        g.eq(f"{tag}: accept iff log u < min(0, log MH ratio of the regenerate proposal) (incl. mixture-indicator branch switch)",
             sj.obj(thr), sj.obj(z3.If(wr < 0, wr, 0)), A + extra, cases=cs)
    else:
        g.holds(f"{tag}: accept iff log u < min(0, log MH ratio of the regenerate proposal) (incl. mixture-indicator branch switch)",
                acc == (sj.Log(u) < z3.If(wr < 0, wr, 0)), A + extra, cases=cs)
    g.fault_twin("always-accept", acc == z3.BoolVal(True), A + extra)


def _cond_prefixes(p, prefix=()):
    out = []
    if p.kind == "fn":
        for st in p.body:
            if isinstance(st, rs.Sample):
                out += _cond_prefixes(st.callee, prefix + (st.addr,))
    elif p.kind in ("vmap", "scan"):
        out += _cond_prefixes(p.callee, prefix)
    elif p.kind == "cond":
        out.append(prefix)
        out += _cond_prefixes(p.a, prefix) + _cond_prefixes(p.b, prefix)
    return out


def normal_lp(x, m, s):
    from tensorflow_probability.substrates import jax as tfp
    return jnp.sum(tfp.distributions.Normal(m, s).log_prob(x))


def grad_group(g, T, case, tag, spec, acc, u, dom, proposed, pre, state, ref_old, inv, a_old, kw_old, old_leaves, kern, tau, L, paths):
    sel_paths = [p for p in paths if spec.selected(p)]
    old_vis = ref_old.get_choices()
    noise_sites = [st for st in T.sites if (st.name or "").lower() == "normal"]
    # one standard-normal draw per selected COORDINATE
    g.ok(f"{tag}: one noise/momentum site per selected address", len(noise_sites) == len(sel_paths),
         f"{len(noise_sites)} normal sites for {len(sel_paths)} selected addresses")
    if len(noise_sites) != len(sel_paths):
        return
    std = []
    eps = []
    shape_ok = True
    # tree_map order over the selected choice map == sorted-key flatten order
    sel_cm = rs.submap(old_vis, sel_paths)
    flat_paths = gfi.leaf_paths(jax.tree_util.tree_map(lambda l: l, sel_cm, is_leaf=rs._isarr))
    flat_sorted = [tuple(str(getattr(k, "key", k)) for k in kp) for kp, _ in
                   jax.tree_util.tree_flatten_with_path(sel_cm, is_leaf=rs._isarr)[0]]
    for pth, st in zip(flat_sorted, noise_sites):
        x = sj.obj(rs.get_path(old_vis, pth))
        o = sj.obj(st.outs[0])
        sa, _ = gfi._site_args(st)
        std.append(z3.And(solve.eq_arrays(sa[0], sj.obj(sj.RV(0))), solve.eq_arrays(sa[1], sj.obj(sj.RV(1)))))
        if o.shape != x.shape:
            shape_ok = False
            g.ok(f"{tag}: fresh standard-normal noise PER COORDINATE of {'/'.join(pth)} (shape {x.shape})", False,
                 f"one draw of shape {o.shape} is shared by all {int(np.prod(x.shape))} coordinates")
            eps.append(np.broadcast_to(o, x.shape).copy())
        else:
            g.ok(f"{tag}: fresh standard-normal noise PER COORDINATE of {'/'.join(pth)} (shape {x.shape})", True)
            eps.append(o)
    g.holds(f"{tag}: noise sites are normal(0, 1)", z3.And(*std))
    prog = case.prog

    def put(cm, xs):
        out = cm
        for pth, x in zip(flat_sorted, xs):
            out = rs.set_path(out, pth, x)
        return out

    def ref_kernel(cm, args, kwargs, eps):
        xs = [rs.get_path(cm, pth) for pth in flat_sorted]
        logp = lambda xs_: rs.ref_logp_jax(prog, put(cm, xs_), list(args), kwargs)[0]
        if kern == "mala":
            gr = jax.grad(logp)(xs)
            xn = [x + (tau ** 2 / 2.0) * g_ + tau * e for x, g_, e in zip(xs, gr, eps)]
            gn = jax.grad(logp)(xn)
            fwd = sum(normal_lp(b, a + (tau ** 2 / 2.0) * g_, tau) for a, b, g_ in zip(xs, xn, gr))
            bwd = sum(normal_lp(a, b + (tau ** 2 / 2.0) * g_, tau) for a, b, g_ in zip(xs, xn, gn))
            la = logp(xn) - logp(xs) + bwd - fwd
            return xn, la
        # hmc: textbook leapfrog on the reference density, H = -logp + |p|^2/2 (+ const)
        q, pm = list(xs), list(eps)
        gr = jax.grad(logp)(q)
        for _ in range(L):
            pm = [p_ + (tau / 2.0) * g_ for p_, g_ in zip(pm, gr)]
            q = [x + tau * p_ for x, p_ in zip(q, pm)]
            gr = jax.grad(logp)(q)
            pm = [p_ + (tau / 2.0) * g_ for p_, g_ in zip(pm, gr)]
        kin = lambda ps: sum(normal_lp(p_, 0.0, 1.0) for p_ in ps)
        la = (logp(q) + kin([-p_ for p_ in pm])) - (logp(xs) + kin(eps))
        return q, la

    cm_ex = gfi.zeros_like_shape(jax.tree_util.tree_map(lambda l: jax.ShapeDtypeStruct(sj.obj(l).shape, rs._dtype_of(l)), old_vis, is_leaf=rs._isarr))
    eps_ex = [jnp.zeros(sj.obj(e).shape, jnp.float32) for e in eps]
    ex = (cm_ex, tuple(case.args), dict(case.kwargs), eps_ex)
    sym = (old_vis, tuple(a_old), dict(kw_old), eps)
    try:
        R = sj.sym_apply(ref_kernel, ex, sym)
    except Exception as e:
        g._rec(f"{tag}: reference kernel", "inconclusive", detail=f"{type(e).__name__}: {e}")
        return
    xn_ref, la_ref = R.outs
    new_vis = put(old_vis, xn_ref)
    rctx = rs.RefCtx()
    ref_new = rs.ref_eval(prog, rs.overwrite_state(prog, old_vis, rs.submap(new_vis, sel_paths)), list(a_old), dict(kw_old), rctx)
    A = inv + dom + list(rctx.support)
    checks_old, checks_new = cond_checks(ref_old, []), cond_checks(ref_new, [])
    A += [solve.eq_arrays(a, b) for a, b in zip(checks_old, checks_new)]
    what = ("x + step^2/2 * grad log p + step * eps" if kern == "mala" else f"{L} leapfrog step(s) from fresh momentum")
    g.eq(f"{tag}: proposed trace == reference proposal ({what}), coherent, unselected untouched",
         rs.canon_trace(proposed), ref_new.canon(), A, cases=[sj.unlog(c.item()) for c in checks_old])
    la = sj.unlog(sj.obj(la_ref).item())
    thr = threshold_of(acc, u)
    cs = [sj.unlog(c.item()) for c in checks_old]
    if thr is not None:
        g.eq(f"{tag}: accept iff log u < min(0, log MH ratio) for that proposal", sj.obj(thr), sj.obj(z3.If(la < 0, la, 0)), A, cases=cs)
    else:
        g.holds(f"{tag}: accept iff log u < min(0, log MH ratio) for that proposal", acc == (sj.Log(u) < z3.If(la < 0, la, 0)), A, cases=cs)
    g.fault_twin("ratio-without-proposal-correction", acc == (sj.Log(u) < z3.If(la + 1 < 0, la + 1, 0)), A)


def nan_safety(g, kernel):
    """Extended-real (NaN / +-inf aware) mode: a proposal that leaves the support has an undefined (NaN) density; the
    Metropolis-Hastings rule must reject it -- the kernel never returns a trace whose score is NaN or infinite, and a
    finite current state with a NaN acceptance ratio stays where it is."""
    from genjax import gen, normal, sel
    from genjax.inference import mh, mala, hmc

    @gen
    def scale_model():
        s = normal(1.0, 1.0) @ "s"          # the scale of y: only s > 0 has a defined density
        y = normal(0.0, s) @ "y"
        return y
    g.programs.add("scale_model")
    g.sample(program="s ~ normal(1, 1); y ~ normal(0, s)   (proposals with s <= 0 have an undefined density)", kernel=kernel)
    kern = {"mh": lambda t: mh(t, sel("s")), "mala": lambda t: mala(t, sel("s"), 0.5), "hmc": lambda t: hmc(t, sel("s"), 0.5, 2)}[kernel]
    tr0 = gfi.example_trace(scale_model, [], {})
    flat, _ = jax.tree_util.tree_flatten(tr0)
    names = [jax.tree_util.keystr(k) for k, _ in jax.tree_util.tree_flatten_with_path(tr0)[0]]
    plain = [sj.fresh_like(l.shape, l.dtype, f"t{i}") for i, l in enumerate(flat)]
    sym_in = [sj.ew(lambda t: sj.XV.fin(t))(None, None, a) if sj.kind_of(l.dtype) == "f" else a for a, l in zip(plain, flat)]

    def f(t):
        new = kern(t)
        return new.get_score(), new.get_choices()["s"], t.get_choices()["s"]
    pre = g.try_trace(f"{kernel} [NaN/inf aware] traces", f, tr0)
    if pre is None:
        return
    g.traces.remove(pre)
    T = g.trace(f, tr0, sym_in=sym_in)
    T.validate_random_only = True
    score, s_new, s_old = [sj.obj(x).item() for x in T.outs]
    # the current state is valid: every scale recorded in the trace is positive (all other fields: any finite reals)
    A = []
    for nm, a in zip(names, plain):
        if nm.endswith("['s']._choices") or nm.endswith("['y']._args[0][1]"):
            A += [t > 0 for t in sj.terms(a)]
    # uniform accept thresholds lie in (0, 1)
    for site in T.sites:
        if (site.name or "").lower() == "uniform":
            A += [z3.And(sj.to_xv(o).v > 0, sj.to_xv(o).v < 1) for o in sj.obj(site.outs[0]).ravel()]
    g.assume(*A)
    sc, sn, so = sj.to_xv(score), sj.to_xv(s_new), sj.to_xv(s_old)
    g.holds(f"{kernel} [NaN/inf aware]: the returned trace never has a NaN score (a proposal of undefined density is rejected)", z3.Not(sc.nan))
    g.holds(f"{kernel} [NaN/inf aware]: the returned value of s is finite and either the old value or inside the support (s > 0)",
            z3.And(sn.finite(), z3.Or(sn.v == so.v, sn.v > 0)))
