"""C17: the ELBO objective is unbiased, tight at the posterior, and ascended by VI."""
from __future__ import annotations

import numpy as np
import z3

import jax
import jax.numpy as jnp

from .. import symjax as sj, solve, gfi

FUNCTIONS = ["elbo_factory", "optimize_vi", "elbo_vi", "mean_field_normal_family", "Expectation.estimate/grad_estimate", "Fn.merge (constraint vs sampled choices)",
             "NormalREPARAM / REINFORCE / MultivariateNormalREPARAM"]
BOUNDS = {"latent dimension": "1 (2 for the mean-field family)", "iterations": "<= 3", "learning rate": "{1/8, 1}", "families": "reparameterised and score-function normal families; mean_field_normal_family(2); flat and hierarchical (nested) latent addresses, constraints overlapping the sampled address at both depths",
          "values": "all parameter values, observations, prior/likelihood scales and noise outcomes"}
ASSUMPTIONS = ["'lies below log p(x) in expectation otherwise' is Gibbs' inequality (an integral): outside",
               "tightness: scales are exp of symbolic log-scales; the posterior/marginal scale relations are side conditions"]
EXPLANATION = "elbo.estimate per-draw identity vs reference densities; tightness at the conjugate posterior as a polynomial identity; grad_estimate vs jax.grad of the reference per-draw objective; optimize_vi unrolled"

f32 = np.float32


def groups(tier, seed):
    return ["estimate:reparam", "estimate:reinforce", "estimate:overlap", "estimate:nested", "estimate:nested_overlap", "family:full_cov:reparam", "family:full_cov:reinforce",
            "family:mean_field:reparam", "family:mean_field:reinforce", "tight", "grad:reparam", "grad:reinforce", "vi:reparam:2:0.125", "vi:reparam:3:1.0",
            "vi:reinforce:1:0.125", "elbo_vi:2", "mean_field"]


def models():
    from genjax import gen, normal
    from genjax.adev import normal_reparam, normal_reinforce

    @gen
    def target(l0, l):
        z = normal(0.0, jnp.exp(l0)) @ "z"
        x = normal(z * 2.0, jnp.exp(l)) @ "x"
        return z

    @gen
    def q_reparam(constraint, phi):
        return normal_reparam(phi[0], jnp.exp(phi[1])) @ "z"

    @gen
    def q_reinforce(constraint, phi):
        # score-function family parameterised by (mean, std) directly (keeps the queries polynomial)
        return normal_reinforce(phi[0], phi[1]) @ "z"
    return target, q_reparam, q_reinforce


def nested_models():
    """the same conjugate pair with the latent at a hierarchical address latent/z (merge of nested choice maps)"""
    from genjax import gen, normal
    from genjax.adev import normal_reparam

    @gen
    def prior(l0):
        return normal(0.0, jnp.exp(l0)) @ "z"

    @gen
    def target(l0, l):
        z = prior(l0) @ "latent"
        x = normal(z * 2.0, jnp.exp(l)) @ "x"
        return z

    @gen
    def qz(phi):
        return normal_reparam(phi[0], jnp.exp(phi[1])) @ "z"

    @gen
    def q(constraint, phi):
        return qz(phi) @ "latent"
    return target, q


def ref_objective(z, phi, obs, l0, l, std=None):
    """log p(x = obs, z) - log q(z; phi), written directly with TFP (independent of genjax)"""
    from tensorflow_probability.substrates import jax as tfp
    N = tfp.distributions.Normal
    lp = N(0.0, jnp.exp(l0)).log_prob(z) + N(z * 2.0, jnp.exp(l)).log_prob(obs)
    lq = N(phi[0], (jnp.exp(phi[1]) if std is None else std(phi))).log_prob(z)
    return lp - lq


STD_DIRECT = lambda phi: phi[1]


PHI = np.asarray([0.3, -0.2], dtype=np.float32)
PHI2 = np.asarray([0.3, 0.8], dtype=np.float32)     # (mean, std) for the score-function family


def family_group(g, which, est):
    """the variational families draw from the documented normal: mean-field N(means, diag(exp(log_stds))^2),
    full-covariance N(mean, L L') with L the given factor -- for all parameter values (site-law obligation)"""
    from genjax.inference.vi import mean_field_normal_family, full_covariance_normal_family
    n = 2
    if which == "full_cov":
        fam = full_covariance_normal_family(n, est)
        ex = {"mean": np.asarray([0.3, -0.2], np.float32), "chol_cov": np.asarray([[1.0, 0.0], [0.9, 0.5]], np.float32)}
    else:
        fam = mean_field_normal_family(n, est)
        ex = np.asarray([0.3, -0.2, 0.1, -0.4], np.float32)
    T = g.try_trace(f"{which} family ({est}): simulate traces", lambda p: fam.simulate({}, p).get_retval(), ex)
    if T is None:
        return
    g.ok(f"{which} family ({est}): one multivariate-normal site", len(T.sites) == 1, str([(s.name, s.prim_name) for s in T.sites]))
    if len(T.sites) != 1:
        return
    sa, _ = gfi._site_args(T.sites[0])
    loc, cov = sj.obj(sa[0]), sj.obj(sa[1])
    (p_s,) = T.ins
    if which == "full_cov":
        mean, L = sj.obj(p_s["mean"]), sj.obj(p_s["chol_cov"])
        want = np.empty((n, n), dtype=object)
        for i in range(n):
            for j in range(n):
                want[i, j] = sum(sj.unlog(L[i, k]) * sj.unlog(L[j, k]) for k in range(n))
        g.eq(f"full-covariance family ({est}): the site's location is the mean parameter", loc, mean)
        g.eq(f"full-covariance family ({est}): the site's covariance is L L' for the given factor L (all L, lower-triangular or not)", cov, want)
        wrong = np.empty((n, n), dtype=object)
        for i in range(n):
            for j in range(n):
                wrong[i, j] = sum(sj.unlog(L[k, i]) * sj.unlog(L[k, j]) for k in range(n))
        g.fault_twin("covariance-is-L'L", solve.eq_arrays(cov, wrong))
    else:
        p = sj.obj(p_s)
        g.eq(f"mean-field family ({est}): the site's location is the first half of the parameters", loc, p[:n])
        want = np.empty((n, n), dtype=object)
        for i in range(n):
            for j in range(n):
                want[i, j] = sj.s_mul(sj.s_exp(sj.unlog(p[n + i])), sj.s_exp(sj.unlog(p[n + i]))) if i == j else sj.RV(0)
        g.eq(f"mean-field family ({est}): the site's covariance is diag(exp(log_std)^2) of the second half", cov, want)


def run_group(g, gid):
    from genjax.inference.vi import elbo_factory, optimize_vi, elbo_vi, mean_field_normal_family
    parts = gid.split(":")
    kind = parts[0]
    if kind == "family":
        return family_group(g, parts[1], parts[2])
    target, q_rep, q_rei = models()
    g.programs.add(gid)
    obs0, l00, l0 = f32(0.7), f32(0.1), f32(-0.3)

    def make(qf, constraint_fn=lambda o: {"x": o}):
        return lambda phi, o, a, b: elbo_factory(target, qf, constraint_fn(o), (a, b))

    if kind == "estimate":
        fam = parts[1]
        qf = q_rei if fam == "reinforce" else q_rep
        cfn = (lambda o: {"x": o, "z": o * 3.0}) if fam == "overlap" else (lambda o: {"x": o})
        if fam in ("nested", "nested_overlap"):
            tgt2, q2 = nested_models()
            cfn = (lambda o: {"x": o, "latent": {"z": o * 3.0}}) if fam == "nested_overlap" else (lambda o: {"x": o})
            T = g.try_trace(f"elbo.estimate [{fam}] traces", lambda phi, o, a, b: elbo_factory(tgt2, q2, cfn(o), (a, b)).estimate(phi), PHI, obs0, l00, l0)
        else:
            T = g.try_trace(f"elbo.estimate [{fam}] traces", lambda phi, o, a, b: make(qf, cfn)(phi, o, a, b).estimate(phi), PHI, obs0, l00, l0)
        if T is None:
            return
        g.ok(f"[{fam}] exactly one site (the variational draw)", len(T.sites) == 1, str([(s.name, s.prim_name) for s in T.sites]))
        site = T.sites[0]
        phi = T.flat_in[0]
        sa, _ = gfi._site_args(site)
        out = site.outs[0]
        if fam == "reinforce":
            z = out
            g.holds("[reinforce] the site is normal(phi0, phi1)", z3.And(sj.unlog(sj.obj(sa[0]).item()) == sj.unlog(phi[0]),
                                                                       sj.unlog(sj.obj(sa[1]).item()) == sj.unlog(phi[1])))
            R = sj.sym_trace(lambda zz, p, o, a, b: ref_objective(zz, p, o, a, b, STD_DIRECT), f32(0), PHI2, obs0, l00, l0, sym_in=[z] + list(T.flat_in))
        else:
            g.holds(f"[{fam}] the noise site is normal(0, 1), independent of phi", z3.And(*[x == 0 for x in sj.terms(sa[0])] + [x == 1 for x in sj.terms(sa[1])]))
            R = sj.sym_trace(lambda e, p, o, a, b: ref_objective(p[0] + jnp.exp(p[1]) * e, p, o, a, b), f32(0), PHI, obs0, l00, l0,
                             sym_in=[out] + list(T.flat_in))
        g.eq(f"[{fam}] estimate == log p(obs, z) - log q(z; phi) for the draw z (per-draw identity => unbiased for E_q[log p - log q]); "
             "sampled choices take precedence over the constraint", T.outs, R.outs)
        return

    if kind == "tight":
        # conjugate Normal-Normal with x ~ N(2 z, s): posterior N(mu_n, s_n), marginal N(0, m); all scales = exp(log-scale)
        def f(phi, o, a, b):
            return elbo_factory(target, q_rep, {"x": o}, (a, b)).estimate(phi)
        T = g.try_trace("elbo.estimate at the exact posterior traces", f, PHI, obs0, l00, l0)
        if T is None:
            return
        phi, o, a, b = T.flat_in
        mu_n, ln = sj.unlog(phi[0]), sj.unlog(phi[1])
        o_, a_, b_ = sj.unlog(o.item()), sj.unlog(a.item()), sj.unlog(b.item())
        e0, e, en = sj.Exp(a_), sj.Exp(b_), sj.Exp(ln)
        lm = z3.Real("lm")
        m = sj.Exp(lm)
        side = [e0 > 0, e > 0, en > 0, m > 0,
                m * m == 4 * e0 * e0 + e * e,                     # marginal variance of x = 4 s0^2 + s^2
                en * en * (4 * e0 * e0 + e * e) == e0 * e0 * e * e,  # posterior variance
                mu_n * (4 * e0 * e0 + e * e) == 2 * e0 * e0 * o_,    # posterior mean
                ln == a_ + b_ - lm]                                # log of the scale relation
        HL2PI = None
        est = sj.unlog(sj.obj(T.outs).item())
        # log p(obs) = -obs^2 / (2 m^2) - log m - 0.5 log(2 pi); the constant appears once on each side
        from tensorflow_probability.substrates import jax as tfp
        Rm = sj.sym_trace(lambda oo, l: tfp.distributions.Normal(0.0, jnp.exp(l)).log_prob(oo), obs0, f32(0.0), sym_in=[o, sj.obj(lm)])
        g.holds("ELBO estimate equals log p(obs) for EVERY draw when q is the exact posterior (conjugate Normal-Normal, symbolic scales)",
                est == sj.unlog(sj.obj(Rm.outs).item()), side)
        g.fault_twin("tight-at-wrong-mean", est == sj.unlog(sj.obj(Rm.outs).item()), side[:6] + [mu_n * (4 * e0 * e0 + e * e) == e0 * e0 * o_, side[7]])
        return

    if kind == "grad":
        fam = parts[1]
        qf = q_rei if fam == "reinforce" else q_rep
        T = g.try_trace(f"elbo.grad_estimate [{fam}] traces", lambda phi, o, a, b: make(qf)(phi, o, a, b).grad_estimate(phi), PHI, obs0, l00, l0)
        if T is None:
            return
        g.ok(f"[{fam}] one site", len(T.sites) == 1)
        out = T.sites[0].outs[0]
        if fam == "reparam":
            R = sj.sym_trace(lambda e, p, o, a, b: jax.grad(lambda pp: ref_objective(pp[0] + jnp.exp(pp[1]) * e, pp, o, a, b))(p),
                             f32(0), PHI, obs0, l00, l0, sym_in=[out] + list(T.flat_in))
            g.eq("[reparam] grad_estimate == gradient of the per-draw objective along the reparameterisation (pathwise)", T.outs, R.outs)
        else:
            from tensorflow_probability.substrates import jax as tfp

            def ref(zz, p, o, a, b):
                f = lambda pp: ref_objective(zz, pp, o, a, b, STD_DIRECT)
                lq = lambda pp: tfp.distributions.Normal(pp[0], pp[1]).log_prob(zz)
                return jax.grad(f)(p) + f(p) * jax.grad(lq)(p)
            R = sj.sym_trace(ref, f32(0), PHI2, obs0, l00, l0, sym_in=[out] + list(T.flat_in))
            g.eq("[reinforce] grad_estimate == f(z) * grad log q(z; phi) + grad f (score-function form)", T.outs, R.outs,
                 [sj.unlog(T.flat_in[0][1]) > 0])
        return

    if kind in ("vi", "elbo_vi"):
        if kind == "vi":
            fam, n, lr = parts[1], int(parts[2]), float(parts[3])
        else:
            fam, n, lr = "reparam", int(parts[1]), 0.125
        qf = q_rei if fam == "reinforce" else q_rep
        if kind == "vi":
            run = lambda phi, o, a, b: optimize_vi(make(qf)(phi, o, a, b), phi, learning_rate=lr, n_iterations=n)
        else:
            run = lambda phi, o, a, b: elbo_vi(target, qf, phi, {"x": o}, (a, b), learning_rate=lr, n_iterations=n)
        T = g.try_trace(f"{kind} [{fam}, n={n}, lr={lr}] traces", run, PHI, obs0, l00, l0)
        if T is None:
            return
        V = T.outs
        g.ok("one draw per iteration", len(T.sites) == n, f"{len(T.sites)} sites")
        if len(T.sites) != n:
            return
        phi, o, a, b = T.flat_in
        from tensorflow_probability.substrates import jax as tfp

        def gref(noise, p, o_, a_, b_):
            if fam == "reparam":
                return jax.grad(lambda pp: ref_objective(pp[0] + jnp.exp(pp[1]) * noise, pp, o_, a_, b_))(p)
            f = lambda pp: ref_objective(noise, pp, o_, a_, b_, STD_DIRECT)
            lq = lambda pp: tfp.distributions.Normal(pp[0], pp[1]).log_prob(noise)
            return jax.grad(f)(p) + f(p) * jax.grad(lq)(p)
        cur = phi
        hist = []
        for i in range(n):
            Rg = sj.sym_trace(gref, f32(0), PHI, obs0, l00, l0, sym_in=[T.sites[i].outs[0], cur, o, a, b])
            cur = gfi.add(cur, sj.ew(lambda x: sj.s_mul(sj.RV(lr), x))(None, None, Rg.outs))
            hist.append(cur)
        Apos = [sj.unlog(phi[1]) > 0] if fam == "reinforce" else []
        for i in range(n):
            g.eq(f"param_history[{i}] == params + learning_rate * gradient estimate at the previous iterate (iteration {i + 1})",
                 sj.obj(V.param_history)[i], hist[i], Apos)
        g.eq("final_params == last iterate", V.final_params, hist[-1], Apos)
        g.ok("history holds every iterate; n_iterations recorded", sj.obj(V.param_history).shape[0] == n and V.n_iterations.value == n)
        return

    if kind == "mean_field":
        from genjax import gen, normal

        @gen
        def target2(s):
            x = normal(jnp.zeros(2), 1.0) @ "x0"
            return x
        fam = mean_field_normal_family(2)

        @gen
        def tgt(s):
            from genjax import multivariate_normal
            x = multivariate_normal(jnp.zeros(2), jnp.eye(2) * s) @ "x"
            y = normal(x[0] + x[1], 1.0) @ "y"
            return x
        params = np.asarray([0.1, -0.2, 0.0, 0.0], dtype=np.float32)
        T = g.try_trace("elbo.estimate with mean_field_normal_family(2) traces (array parameters)",
                        lambda p, o, s: elbo_factory(tgt, fam, {"y": o}, (s,)).estimate(p), params, f32(0.5), f32(2.0))
        if T is None:
            return
        g.ok("mean-field: one 2-d noise draw", len(T.sites) == 1 and sj.obj(T.sites[0].outs[0]).size == 2, str([(s.name, sj.obj(s.outs[0]).shape) for s in T.sites]))
        Tg = g.try_trace("elbo.grad_estimate with mean_field_normal_family(2) traces", lambda p, o, s: elbo_factory(tgt, fam, {"y": o}, (s,)).grad_estimate(p),
                         params, f32(0.5), f32(2.0))
        if Tg is not None:
            g.ok("mean-field gradient has the shape of the parameters", sj.obj(Tg.outs).shape == (4,))
