"""Reference semantics of the GenJAX modelling language, independent of the code under test.

One AST yields (a) the genjax program, built through the public API (`gen`, `@`, `.vmap`, `Scan`,
`Cond`), and (b) a direct denotational evaluator over z3 terms: joint log density as an explicit
sum over sites (Python loops over lanes / scan steps, If for Cond), return value, and a *reference
trace* mirroring the trace pytree (recorded args, choices, retval, score for every sub-trace).

(b) never calls a genjax handler, combinator, modular_vmap or merge.  Per-family log densities come
from TensorFlow Probability called directly with the *documented* parameterisation.
"""
from __future__ import annotations

import numpy as np
import z3

import jax
import jax.numpy as jnp

from . import symjax as sj


# --------------------------------------------------------------------------- symbolic arrays
class S:
    """object array of z3 terms with arithmetic via symjax's smart constructors"""

    __array_priority__ = 1000

    def __init__(self, a):
        if isinstance(a, S):
            a = a.a
        self.a = lift(a)

    @property
    def shape(self):
        return self.a.shape

    @property
    def ndim(self):
        return self.a.ndim

    def _bin(self, f, o, swap=False):
        o = S(o)
        x, y = (o.a, self.a) if swap else (self.a, o.a)
        # numeric promotion int/bool -> real when mixed
        return S(sj.ew(lambda p, q: f(*_promote(p, q)))(None, None, x, y))

    def __add__(self, o): return self._bin(sj.s_add, o)
    def __radd__(self, o): return self._bin(sj.s_add, o, True)
    def __sub__(self, o): return self._bin(sj.s_sub, o)
    def __rsub__(self, o): return self._bin(sj.s_sub, o, True)
    def __mul__(self, o): return self._bin(sj.s_mul, o)
    def __rmul__(self, o): return self._bin(sj.s_mul, o, True)
    def __truediv__(self, o): return self._bin(lambda p, q: sj.s_div(sj.s_real(p), sj.s_real(q)), o)
    def __rtruediv__(self, o): return self._bin(lambda p, q: sj.s_div(sj.s_real(p), sj.s_real(q)), o, True)
    def __neg__(self): return S(sj.ew(sj.s_neg)(None, None, self.a))
    def __gt__(self, o): return self._bin(sj.s_gt, o)
    def __ge__(self, o): return self._bin(sj.s_ge, o)
    def __lt__(self, o): return self._bin(sj.s_lt, o)
    def __le__(self, o): return self._bin(sj.s_le, o)
    def __and__(self, o): return self._bin(sj.s_and, o)
    def __or__(self, o): return self._bin(sj.s_or, o)
    def __invert__(self): return S(sj.ew(sj.s_not)(None, None, self.a))
    def eq(self, o): return self._bin(sj.s_eq, o)

    def __getitem__(self, i):
        return S(sj.obj(self.a[i]))

    def __len__(self):
        return self.a.shape[0]

    def __iter__(self):
        for i in range(self.a.shape[0]):
            yield self[i]

    def __repr__(self):
        return f"S({self.a})"


def _promote(p, q):
    if p.sort() != q.sort():
        return sj.s_real(p), sj.s_real(q)
    return p, q


def lift(a):
    """python numbers / numpy arrays / object arrays -> object array of z3 terms.
    Python floats must be exactly representable in float32 (the value JAX would use)."""
    if isinstance(a, S):
        return a.a
    if isinstance(a, np.ndarray) and a.dtype == object:
        return a
    if isinstance(a, (z3.ExprRef, sj.LogV)):
        return sj.obj(a)
    if isinstance(a, (list, tuple)):
        return np.stack([lift(x) for x in a], axis=0) if len(a) else np.empty((0,), dtype=object)
    arr = np.asarray(a)
    if arr.dtype.kind == "f":
        a32 = arr.astype(np.float32)
        if not np.all(a32.astype(np.float64) == arr.astype(np.float64)):
            raise ValueError(f"constant {a} is not exactly representable in float32")
    return sj.lift_array(arr)


def unS(x):
    """pytree with S leaves -> pytree with object-array leaves"""
    return jax.tree_util.tree_map(lambda l: l.a if isinstance(l, S) else lift(l), x,
                                  is_leaf=lambda l: isinstance(l, S))


def toS(x):
    return jax.tree_util.tree_map(lambda l: S(l), x, is_leaf=lambda l: isinstance(l, (np.ndarray, S)))


# --------------------------------------------------------------------------- polymorphic ops for expressions
class JOps:
    """ops namespace when an expression runs inside the genjax program (JAX values)"""
    sum = staticmethod(jnp.sum)
    exp = staticmethod(jnp.exp)
    log = staticmethod(jnp.log)
    where = staticmethod(jnp.where)
    stack = staticmethod(lambda xs: jnp.stack(list(xs)))
    zeros = staticmethod(lambda n: jnp.zeros(n))
    ones = staticmethod(lambda n: jnp.ones(n))
    dot = staticmethod(jnp.dot)
    f32 = staticmethod(lambda x: jnp.asarray(x, dtype=jnp.float32))
    eye = staticmethod(lambda n: jnp.eye(n))


class SOps:
    @staticmethod
    def sum(x):
        x = S(x)
        acc = sj.RV(0)
        for e in x.a.ravel():
            acc = sj.s_add(acc, sj.s_real(e))
        return S(sj.obj(acc))

    @staticmethod
    def exp(x):
        return S(sj.ew(sj.s_exp)(None, None, S(x).a))

    @staticmethod
    def log(x):
        return S(sj.ew(lambda t: sj.Log(t))(None, None, S(x).a))

    @staticmethod
    def where(c, a, b):
        return S(sj.ew(lambda p, x, y: sj.s_ite(p, *_promote(x, y)))(None, None, S(c).a, S(a).a, S(b).a))

    @staticmethod
    def stack(xs):
        return S(np.stack([S(x).a for x in xs], axis=0))

    @staticmethod
    def zeros(n):
        return S(sj.lift_array(np.zeros(n, dtype=np.float32)))

    @staticmethod
    def ones(n):
        return S(sj.lift_array(np.ones(n, dtype=np.float32)))

    @staticmethod
    def dot(a, b):
        a, b = S(a), S(b)
        assert a.ndim == 1 and b.ndim == 1
        acc = sj.RV(0)
        for x, y in zip(a.a, b.a):
            acc = sj.s_add(acc, sj.s_mul(x, y))
        return S(sj.obj(acc))

    @staticmethod
    def f32(x):
        return S(sj.ew(sj.s_real)(None, None, S(x).a))

    @staticmethod
    def eye(n):
        return S(sj.lift_array(np.eye(n, dtype=np.float32)))


def ev(expr, ops, env):
    if callable(expr):
        return expr(ops, env)
    return eval(expr, {"o": ops, "__builtins__": {"len": len, "range": range, "tuple": tuple}}, dict(env))


# --------------------------------------------------------------------------- families
class Family:
    """A distribution family: the genjax object, the documented TFP constructor (called directly,
    not through genjax), event structure and a support predicate."""

    def __init__(self, name, gj_name, tfd_ctor, param_event_ndims, event_ndims, vkind, support, pname=None):
        self.name = name
        self.gj_name = gj_name
        self.tfd_ctor = tfd_ctor                      # (tfd, *params) -> tfd.Distribution
        self.param_event_ndims = param_event_ndims
        self.event_ndims = event_ndims
        self.vkind = vkind                            # 'f', 'i', 'b'
        self.support = support                        # (value S, params [S]) -> list of z3 constraints
        self.site_name = pname

    @property
    def gj(self):
        import genjax
        return getattr(genjax, self.gj_name)

    _cache = {}

    def logpdf(self, value, params):
        """reference log density: TFP called directly at the documented parameterisation,
        encoded by symjax.  value/params: object arrays.  Returns object array."""
        from tensorflow_probability.substrates import jax as tfp
        tfd = tfp.distributions
        vdt = {"f": jnp.float32, "i": jnp.int32, "b": jnp.bool_}[self.vkind]
        value, params = lift(value), [lift(p) for p in params]
        key = (self.name, value.shape, tuple(p.shape for p in params), tuple(_kind(p) for p in params))
        if key not in Family._cache:
            pav = [jax.ShapeDtypeStruct(p.shape, _dtype_of(p)) for p in params]
            closed = jax.make_jaxpr(lambda v, *ps: self.tfd_ctor(tfd, *ps).log_prob(v))(
                jax.ShapeDtypeStruct(value.shape, vdt), *pav)
            Family._cache[key] = closed
        closed = Family._cache[key]
        ctx = sj.Ctx()
        (out,) = sj.eval_jaxpr(ctx, closed.jaxpr, closed.consts, value, *params)
        return out


def _kind(a):
    a = sj.obj(a)
    if a.size == 0:
        return "f"
    e = a.ravel()[0]
    if isinstance(e, sj.LogV):
        return "f"
    return "b" if z3.is_bool(e) else ("i" if z3.is_int(e) else "f")


def _dtype_of(a):
    return {"f": jnp.float32, "i": jnp.int32, "b": jnp.bool_}[_kind(a)]


def _pos(x):
    return [t > 0 for t in sj.terms(x.a if isinstance(x, S) else x)]


def _sup_normal(v, ps):
    return _pos(ps[1])


def _sup_exponential(v, ps):
    return _pos(ps[0]) + [t >= 0 for t in sj.terms(v)]


def _sup_flip(v, ps):
    return [z3.And(t > 0, t < 1) for t in sj.terms(ps[0])]


def _sup_uniform(v, ps):
    lo, hi = np.broadcast_arrays(lift(ps[0]), lift(ps[1]))
    cs = [a < b for a, b in zip(sj.terms(lo), sj.terms(hi))]
    vv, lo2, hi2 = np.broadcast_arrays(lift(v), lo, hi)
    cs += [z3.And(x >= a, x < b) for x, a, b in zip(sj.terms(vv), sj.terms(lo2), sj.terms(hi2))]
    return cs


def _sup_categorical(v, ps):
    K = lift(ps[0]).shape[-1]
    return [z3.And(t >= 0, t < K) for t in sj.terms(v)]


def _sup_bernoulli(v, ps):
    return [z3.Or(t == 0, t == 1) for t in sj.terms(v)]


FAMILIES = {
    "normal": Family("normal", "normal", lambda tfd, loc, scale: tfd.Normal(loc=loc, scale=scale), (0, 0), 0, "f", _sup_normal),
    "exponential": Family("exponential", "exponential", lambda tfd, rate: tfd.Exponential(rate=rate), (0,), 0, "f", _sup_exponential),
    "flip": Family("flip", "flip", lambda tfd, p: tfd.Bernoulli(probs=p, dtype=jnp.bool_), (0,), 0, "b", _sup_flip),
    "uniform": Family("uniform", "uniform", lambda tfd, low, high: tfd.Uniform(low=low, high=high), (0, 0), 0, "f", _sup_uniform),
    "categorical": Family("categorical", "categorical", lambda tfd, logits: tfd.Categorical(logits=logits), (1,), 0, "i", _sup_categorical),
    "bernoulli": Family("bernoulli", "bernoulli", lambda tfd, logits: tfd.Bernoulli(logits=logits), (0,), 0, "i", _sup_bernoulli),
    "laplace": Family("laplace", "laplace", lambda tfd, loc, scale: tfd.Laplace(loc=loc, scale=scale), (0, 0), 0, "f", _sup_normal),
}


# --------------------------------------------------------------------------- AST
class Dist:
    kind = "dist"

    def __init__(self, family):
        self.family = FAMILIES[family] if isinstance(family, str) else family

    def src(self):
        return self.family.name


class Sample:
    """var = callee(*args, **kwargs) @ addr"""

    def __init__(self, var, addr, callee, args, kwargs=None):
        self.var, self.addr, self.callee, self.args, self.kwargs = var, addr, callee, list(args), dict(kwargs or {})


class Let:
    def __init__(self, var, expr):
        self.var, self.expr = var, expr


class Fn:
    kind = "fn"

    def __init__(self, name, params, body, ret, kwparams=()):
        self.name, self.params, self.body, self.ret, self.kwparams = name, list(params), list(body), ret, list(kwparams)

    def src(self):
        lines = [f"@gen\ndef {self.name}({', '.join(self.params + ['*'] * bool(self.kwparams) + self.kwparams)}):"]
        for st in self.body:
            if isinstance(st, Let):
                lines.append(f"    {st.var} = {st.expr}")
            else:
                a = ", ".join([str(x) for x in st.args] + [f"{k}={v}" for k, v in st.kwargs.items()])
                lines.append(f"    {st.var} = {st.callee.src_ref()}({a}) @ {st.addr!r}")
        lines.append(f"    return {self.ret}")
        return "\n".join(lines)


class VmapC:
    kind = "vmap"

    def __init__(self, callee, in_axes=0, axis_size=None):
        self.callee, self.in_axes, self.axis_size = callee, in_axes, axis_size


class ScanC:
    kind = "scan"

    def __init__(self, callee, length):
        self.callee, self.length = callee, length


class CondC:
    kind = "cond"

    def __init__(self, a, b):
        self.a, self.b = a, b


def _src_ref(p):
    if p.kind == "dist":
        return p.family.name
    if p.kind == "fn":
        return p.name
    if p.kind == "vmap":
        return f"{_src_ref(p.callee)}.vmap(in_axes={p.in_axes!r}, axis_size={p.axis_size!r})"
    if p.kind == "scan":
        return f"Scan({_src_ref(p.callee)}, length=const({p.length}))"
    if p.kind == "cond":
        return f"Cond({_src_ref(p.a)}, {_src_ref(p.b)})"


for _c in (Dist, Fn, VmapC, ScanC, CondC):
    _c.src_ref = _src_ref


def all_fns(p, acc=None):
    acc = [] if acc is None else acc
    if p.kind == "fn":
        if p not in acc:
            for st in p.body:
                if isinstance(st, Sample):
                    all_fns(st.callee, acc)
            acc.append(p)
    elif p.kind in ("vmap", "scan"):
        all_fns(p.callee, acc)
    elif p.kind == "cond":
        all_fns(p.a, acc)
        all_fns(p.b, acc)
    return acc


def source(p):
    return "\n\n".join(f.src() for f in all_fns(p)) + (f"\n\nmodel = {_src_ref(p)}" if p.kind != "fn" else "")


# --------------------------------------------------------------------------- (a) the genjax program
_GJ = {}


def to_genjax(p):
    import genjax
    if id(p) in _GJ:
        return _GJ[id(p)][1]
    if p.kind == "dist":
        g = p.family.gj
    elif p.kind == "fn":
        def make(p):
            def source_fn(*args, **kwargs):
                env = dict(zip(p.params, args))
                env.update(kwargs)
                for st in p.body:
                    if isinstance(st, Let):
                        env[st.var] = ev(st.expr, JOps, env)
                    else:
                        callee = to_genjax(st.callee)
                        a = [ev(e, JOps, env) for e in st.args]
                        kw = {k: ev(e, JOps, env) for k, e in st.kwargs.items()}
                        env[st.var] = callee(*a, **kw) @ st.addr
                return ev(p.ret, JOps, env)
            source_fn.__name__ = p.name
            source_fn.__qualname__ = p.name
            return source_fn
        g = genjax.gen(make(p))
    elif p.kind == "vmap":
        g = to_genjax(p.callee).vmap(in_axes=p.in_axes, axis_size=p.axis_size)
    elif p.kind == "scan":
        g = genjax.Scan(to_genjax(p.callee), length=genjax.const(p.length))
    elif p.kind == "cond":
        g = genjax.Cond(to_genjax(p.a), to_genjax(p.b))
    _GJ[id(p)] = (p, g)
    return g


# --------------------------------------------------------------------------- (b) reference evaluation
class RefTr:
    """reference trace: mirrors Tr / ScanTr / CondTr (leaves are object arrays)"""

    def __init__(self, kind, **kw):
        self.kind = kind
        self.__dict__.update(kw)

    def canon(self):
        if self.kind == "tr":
            ch = self.choices
            if isinstance(ch, dict):
                ch = {k: v.canon() for k, v in ch.items()}
            return {"args": self.args, "choices": ch, "retval": self.retval, "score": self.score}
        if self.kind == "scan":
            return {"args": self.args, "traces": self.traces.canon(),
                    "final_carry": self.final_carry, "outs": self.outs}
        if self.kind == "cond":
            return {"check": self.check, "trs": [t.canon() for t in self.trs]}

    # -- observable accessors, by the documented meaning
    def get_score(self):
        if self.kind == "tr":
            return _sum(self.score)
        if self.kind == "scan":
            return self.traces.get_score()
        if self.kind == "cond":
            return _where(self.check, self.trs[0].get_score(), self.trs[1].get_score())

    def get_retval(self):
        if self.kind == "tr":
            return self.retval
        if self.kind == "scan":
            return (self.final_carry, self.outs)
        if self.kind == "cond":
            return jax.tree_util.tree_map(lambda a, b: _where(self.check, a, b), self.trs[0].get_retval(),
                                          self.trs[1].get_retval(), is_leaf=_isarr)

    def get_choices(self):
        """visible choices (nested dict / array), Cond merged by its check"""
        if self.kind == "tr":
            if isinstance(self.choices, dict):
                return {k: v.get_choices() for k, v in self.choices.items()}
            return self.choices
        if self.kind == "scan":
            return self.traces.get_choices()
        if self.kind == "cond":
            a, b = self.trs[0].get_choices(), self.trs[1].get_choices()
            return jax.tree_util.tree_map(lambda x, y: _where(self.check, x, y), a, b, is_leaf=_isarr)

    def state(self):
        """the choice state (Cond nodes keep both branches)"""
        if self.kind == "tr":
            if isinstance(self.choices, dict):
                return {k: v.state() for k, v in self.choices.items()}
            return self.choices
        if self.kind == "scan":
            return self.traces.state()
        if self.kind == "cond":
            return CondState(self.trs[0].state(), self.trs[1].state())


class CondState:
    def __init__(self, a, b):
        self.a, self.b = a, b


jax.tree_util.register_pytree_node(CondState, lambda c: ((c.a, c.b), None), lambda _, ch: CondState(*ch))


def _isarr(x):
    return isinstance(x, np.ndarray)


def _sum(a):
    a = sj.obj(a)
    if a.ndim == 0:
        return a
    acc = sj.RV(0)
    for e in a.ravel():
        acc = sj.s_add(acc, e)
    return sj.obj(acc)


def _where(c, a, b):
    return sj.ew(lambda p, x, y: sj.s_ite(p, *_promote(x, y)))(None, None, c, a, b)


class SiteRec:
    """a distribution leaf met by the reference evaluator"""

    def __init__(self, path, family, params, value, nlane):
        self.path, self.family, self.params, self.value, self.nlane = path, family, params, value, nlane


class RefCtx:
    def __init__(self):
        self.sites: list[SiteRec] = []
        self.support = []     # support constraints (params valid, values in support)


def stack_trees(trees):
    return jax.tree_util.tree_map(lambda *xs: np.stack([sj.obj(x) for x in xs], axis=0), *trees, is_leaf=_isarr)


def index_tree(tree, i):
    return jax.tree_util.tree_map(lambda l: sj.obj(sj.obj(l)[i]), tree, is_leaf=_isarr)


def stack_reftr(trs):
    """stack reference traces leaf-wise (Vmap lanes / Scan steps)"""
    t0 = trs[0]
    if t0.kind == "tr":
        if isinstance(t0.choices, dict):
            ch = {k: stack_reftr([t.choices[k] for t in trs]) for k in t0.choices}
        else:
            ch = np.stack([sj.obj(t.choices) for t in trs], axis=0)
        return RefTr("tr", args=stack_trees([t.args for t in trs]), choices=ch,
                     retval=stack_trees([t.retval for t in trs]), score=np.stack([sj.obj(t.score) for t in trs], 0))
    if t0.kind == "scan":
        return RefTr("scan", args=stack_trees([t.args for t in trs]), traces=stack_reftr([t.traces for t in trs]),
                     final_carry=stack_trees([t.final_carry for t in trs]), outs=stack_trees([t.outs for t in trs]))
    if t0.kind == "cond":
        return RefTr("cond", check=np.stack([sj.obj(t.check) for t in trs], 0),
                     trs=[stack_reftr([t.trs[j] for t in trs]) for j in (0, 1)])


def normalize_in_axes(in_axes, nargs):
    if in_axes is None:
        return (None,) * nargs
    if isinstance(in_axes, int):
        return (in_axes,) * nargs
    return tuple(in_axes)


def _slice_arg(arg, ax, i):
    """lane i of an argument pytree along axis spec ax (int / None / pytree prefix)"""
    if ax is None:
        return arg
    if isinstance(ax, int):
        return jax.tree_util.tree_map(lambda l: sj.obj(np.take(sj.obj(l), i, axis=ax)), arg, is_leaf=_isarr)
    # pytree prefix
    if isinstance(ax, (tuple, list)):
        return type(arg)(_slice_arg(a, x, i) for a, x in zip(arg, ax)) if not isinstance(arg, dict) else None
    if isinstance(ax, dict):
        return {k: _slice_arg(arg[k], ax[k], i) for k in arg}
    raise ValueError(ax)


def _axis_len(arg, ax):
    if ax is None:
        return None
    if isinstance(ax, int):
        ls = jax.tree_util.tree_leaves(arg, is_leaf=_isarr)
        return sj.obj(ls[0]).shape[ax] if ls else None
    if isinstance(ax, (tuple, list)):
        for a, x in zip(arg, ax):
            n = _axis_len(a, x)
            if n is not None:
                return n
    if isinstance(ax, dict):
        for k in arg:
            n = _axis_len(arg[k], ax[k])
            if n is not None:
                return n
    return None


def ref_eval(p, state, args, kwargs=None, rctx=None, path=(), nlane=0):
    """Evaluate program p on a choice state and arguments.  args/kwargs/state leaves: object arrays.
    Returns RefTr."""
    kwargs = kwargs or {}
    rctx = rctx if rctx is not None else RefCtx()
    if p.kind == "dist":
        fam = p.family
        params = [lift(a) for a in args]
        value = lift(state)
        lp = fam.logpdf(value, params)
        rctx.sites.append(SiteRec(path, fam, params, value, nlane))
        rctx.support += fam.support(value, params)
        return RefTr("tr", args=(tuple(params), {k: lift(v) for k, v in kwargs.items()}), choices=value, retval=value,
                     score=sj.ew(sj.s_neg)(None, None, lp))
    if p.kind == "fn":
        env = {k: S(v) if _isarr(v) else toS(v) for k, v in zip(p.params, args)}
        env.update({k: (S(v) if _isarr(v) else toS(v)) for k, v in kwargs.items()})
        subs = {}
        total = sj.RV(0)
        for st in p.body:
            if isinstance(st, Let):
                env[st.var] = ev(st.expr, SOps, env)
            else:
                a = [unS(ev(e, SOps, env)) for e in st.args]
                kw = {k: unS(ev(e, SOps, env)) for k, e in st.kwargs.items()}
                if st.addr in subs:
                    raise ValueError("address collision in reference program")
                sub = ref_eval(st.callee, state[st.addr], a, kw, rctx, path + (st.addr,), nlane)
                subs[st.addr] = sub
                total = sj.s_add(total, sub.get_score().item())
                env[st.var] = toS(sub.get_retval())
        ret = unS(ev(p.ret, SOps, env))
        return RefTr("tr", args=(tuple(lift_tree(a) for a in args), {k: lift_tree(v) for k, v in kwargs.items()}),
                     choices=subs, retval=ret, score=sj.obj(total))
    if p.kind == "vmap":
        axes = normalize_in_axes(p.in_axes, len(args))
        n = p.axis_size
        if n is None:
            for a, ax in zip(args, axes):
                n = _axis_len(a, ax)
                if n is not None:
                    break
        lanes = []
        for i in range(n):
            a_i = [_slice_arg(a, ax, i) for a, ax in zip(args, axes)]
            st_i = index_tree(state, i)
            lanes.append(ref_eval(p.callee, st_i, a_i, kwargs, rctx, path + (("lane", i),), nlane + 1))
        return stack_reftr(lanes)
    if p.kind == "scan":
        carry, xs = args[0], args[1]
        steps = []
        outs = []
        for i in range(p.length):
            x_i = index_tree(xs, i) if xs is not None else None
            st_i = index_tree(state, i)
            tr = ref_eval(p.callee, st_i, [carry, x_i], kwargs, rctx, path + (("step", i),), nlane + 1)
            carry, out = tr.get_retval()
            steps.append(tr)
            outs.append(out)
        return RefTr("scan", args=(tuple(lift_tree(a) for a in args), {k: lift_tree(v) for k, v in kwargs.items()}),
                     traces=stack_reftr(steps), final_carry=carry, outs=stack_trees(outs))
    if p.kind == "cond":
        check, rest = args[0], list(args[1:])
        if isinstance(state, CondState):
            sa, sb = state.a, state.b
        else:
            sa = sb = state
        # support constraints of a branch only bind when that branch is the one taken
        ca, cb = RefCtx(), RefCtx()
        ta = ref_eval(p.a, sa, rest, kwargs, ca, path + (("br", 0),), nlane)
        tb = ref_eval(p.b, sb, rest, kwargs, cb, path + (("br", 1),), nlane)
        rctx.sites += ca.sites + cb.sites
        chk = lift(check)
        if chk.ndim == 0:
            c = sj.unlog(chk.item())
            rctx.support += [z3.Implies(c, z3.And(*ca.support))] if ca.support else []
            rctx.support += [z3.Implies(z3.Not(c), z3.And(*cb.support))] if cb.support else []
        return RefTr("cond", check=chk, trs=[ta, tb])
    raise ValueError(p.kind)


def lift_tree(t):
    return jax.tree_util.tree_map(lambda l: lift(l), t, is_leaf=lambda l: isinstance(l, (np.ndarray, S)))


# --------------------------------------------------------------------------- canonical view of a genjax trace
def canon_trace(tr):
    """genjax Tr / ScanTr / CondTr (leaves: anything) -> nested dict in RefTr.canon() layout"""
    from genjax import core
    if isinstance(tr, core.Tr):
        ch = tr._choices
        if isinstance(ch, dict):
            ch = {k: canon_trace(v) for k, v in ch.items()}
        elif isinstance(ch, core.Trace):
            ch = canon_trace(ch)
        return {"args": tr._args, "choices": ch, "retval": tr._retval, "score": tr._score}
    if isinstance(tr, core.ScanTr):
        return {"args": tr.args, "traces": canon_trace(tr.traces),
                "final_carry": tr.final_carry, "outs": tr.outs}
    if isinstance(tr, core.CondTr):
        return {"check": tr.check, "trs": [canon_trace(t) for t in tr.trs]}
    raise TypeError(type(tr))


def kind_of_canon(c):
    return "cond" if "trs" in c else ("scan" if "traces" in c else "tr")


def state_of_canon(c):
    """choice state from a canonical trace view"""
    if kind_of_canon(c) == "tr":
        ch = c["choices"]
        if isinstance(ch, dict):
            return {k: state_of_canon(v) for k, v in ch.items()}
        return ch
    if kind_of_canon(c) == "scan":
        return state_of_canon(c["traces"])
    if kind_of_canon(c) == "cond":
        return CondState(state_of_canon(c["trs"][0]), state_of_canon(c["trs"][1]))


def args_of_canon(c):
    """(args, kwargs) recorded at the top of a canonical trace view"""
    if kind_of_canon(c) in ("tr", "scan"):
        return c["args"]
    if kind_of_canon(c) == "cond":
        a, kw = args_of_canon(c["trs"][0])
        return ((c["check"],) + tuple(a), kw)


def overwrite_state(p, state, cm):
    """state with the addresses present in choice map cm (user-level: Cond is one map for both
    branches) replaced by cm's values"""
    if cm is None:
        return state
    if p.kind == "dist":
        return lift(cm)
    if p.kind == "fn":
        out = dict(state)
        for st in p.body:
            if isinstance(st, Sample) and st.addr in cm:
                out[st.addr] = overwrite_state(st.callee, state[st.addr], cm[st.addr])
        return out
    if p.kind in ("vmap", "scan"):
        return overwrite_state(p.callee, state, cm)
    if p.kind == "cond":
        if isinstance(state, CondState):
            return CondState(overwrite_state(p.a, state.a, cm), overwrite_state(p.b, state.b, cm))
        return overwrite_state(p.a, state, cm)


def addresses(p, prefix=()):
    """leaf address paths of a program (Cond: branch a's address set; branches share addresses)"""
    if p.kind == "dist":
        return [prefix]
    if p.kind == "fn":
        out = []
        for st in p.body:
            if isinstance(st, Sample):
                out += addresses(st.callee, prefix + (st.addr,))
        return out
    if p.kind in ("vmap", "scan"):
        return addresses(p.callee, prefix)
    if p.kind == "cond":
        return addresses(p.a, prefix)


def get_path(tree, path):
    for k in path:
        tree = tree[k]
    return tree


def set_path(tree, path, val):
    if not path:
        return val
    out = dict(tree) if tree is not None else {}
    out[path[0]] = set_path(out.get(path[0]), path[1:], val)
    return out


def submap(cm, paths):
    """restrict nested dict choice map to the given leaf paths (None if empty)"""
    out = None
    for pth in paths:
        out = set_path(out, pth, get_path(cm, pth))
    return out


# --------------------------------------------------------------------------- (c) the reference density as a JAX function
def ref_logp_jax(p, cm, args, kwargs=None):
    """Joint log density and return value of program p on a (user-level) choice map, written directly in
    JAX: Python loops over lanes/steps, jnp.where for Cond, TFP log_prob called directly.  Independent of
    genjax (no handler, combinator, modular_vmap, filter or merge).  Used as the differentiable oracle for
    MALA/HMC/ADEV/VI references (jax.grad of this function is traced and encoded by symjax)."""
    from tensorflow_probability.substrates import jax as tfp
    tfd = tfp.distributions
    kwargs = kwargs or {}
    if p.kind == "dist":
        return jnp.sum(p.family.tfd_ctor(tfd, *args).log_prob(cm)), cm
    if p.kind == "fn":
        env = dict(zip(p.params, args))
        env.update(kwargs)
        total = 0.0
        for st in p.body:
            if isinstance(st, Let):
                env[st.var] = ev(st.expr, JOps, env)
            else:
                a = [ev(e, JOps, env) for e in st.args]
                kw = {k: ev(e, JOps, env) for k, e in st.kwargs.items()}
                lp, r = ref_logp_jax(st.callee, cm[st.addr], a, kw)
                total = total + lp
                env[st.var] = r
        return total, ev(p.ret, JOps, env)
    if p.kind == "vmap":
        axes = normalize_in_axes(p.in_axes, len(args))
        n = p.axis_size
        if n is None:
            for a, ax in zip(args, axes):
                if ax is not None:
                    n = jax.tree_util.tree_leaves(a)[0].shape[ax]
                    break
        total, rets = 0.0, []
        for i in range(n):
            a_i = [a if ax is None else jax.tree_util.tree_map(lambda l: jnp.take(l, i, axis=ax), a) for a, ax in zip(args, axes)]
            c_i = jax.tree_util.tree_map(lambda l: l[i], cm)
            lp, r = ref_logp_jax(p.callee, c_i, a_i, kwargs)
            total = total + lp
            rets.append(r)
        return total, jax.tree_util.tree_map(lambda *xs: jnp.stack(xs), *rets)
    if p.kind == "scan":
        carry, xs = args[0], args[1]
        total, outs = 0.0, []
        for i in range(p.length):
            x_i = jax.tree_util.tree_map(lambda l: l[i], xs) if xs is not None else None
            c_i = jax.tree_util.tree_map(lambda l: l[i], cm)
            lp, (carry, out) = ref_logp_jax(p.callee, c_i, [carry, x_i], kwargs)
            total = total + lp
            outs.append(out)
        return total, (carry, jax.tree_util.tree_map(lambda *xs_: jnp.stack(xs_), *outs))
    if p.kind == "cond":
        check, rest = args[0], list(args[1:])
        la, ra = ref_logp_jax(p.a, cm, rest, kwargs)
        lb, rb = ref_logp_jax(p.b, cm, rest, kwargs)
        return jnp.where(check, la, lb), jax.tree_util.tree_map(lambda x, y: jnp.where(check, x, y), ra, rb)
    raise ValueError(p.kind)


# --------------------------------------------------------------------------- what a vectorised trace records
def recorded_view(p):
    """The arguments a top-level Vmap trace records are lane-stacked for EVERY argument (jax.vmap returns all outputs
    with the mapped axis leading, unmapped arguments are broadcast).  Read back from such a trace, the program is the
    same Vmap with in_axes 0 throughout."""
    if p.kind == "vmap":
        return VmapC(recorded_view(p.callee), in_axes=0, axis_size=p.axis_size)
    return p


def recorded_args(p, args):
    """call arguments -> the lane-stacked form in which a top-level Vmap trace records them"""
    if p.kind != "vmap":
        return tuple(args)
    axes = normalize_in_axes(p.in_axes, len(args))
    n = p.axis_size
    if n is None:
        for a, ax in zip(args, axes):
            n = _axis_len(a, ax)
            if n is not None:
                break
    lanes = []
    for i in range(n):
        a_i = [_slice_arg(a, ax, i) for a, ax in zip(args, axes)]
        lanes.append(recorded_args(p.callee, a_i))
    return tuple(stack_trees([l[k] for l in lanes]) for k in range(len(args)))
