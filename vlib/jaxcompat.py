"""Compat shim: present the JAX API genjax was written against on top of JAX 0.11."""
import jax, jax._src.core as _c
import jax.core as jc
import jax.extend.core as jexc
from jax._src.lax.control_flow import loops as _loops

if not hasattr(_c, "get_aval"):
    _c.get_aval = jax.typeof
try:
    jc.get_aval
except AttributeError:
    jc.get_aval = jax.typeof
try:
    jc.DropVar
except AttributeError:
    jc.DropVar = jexc.DropVar
if not hasattr(_c.Var, "count"):
    _c.Var.count = property(lambda self: id(self))


class _Params(dict):
    """Param dict whose legacy keys are readable but never forwarded by **."""
    _legacy = None
    def __missing__(self, k):
        if self._legacy is not None and k in self._legacy:
            return self._legacy[k]
        raise KeyError(k)
    def get(self, k, default=None):
        if k in self:
            return dict.__getitem__(self, k)
        if self._legacy is not None and k in self._legacy:
            return self._legacy[k]
        return default


class _BindParams(_Params):
    """Usable as **kwargs (new API) and unpackable as (subfuns, params) (old API)."""
    def __iter__(self):
        p = _Params(self)
        p._legacy = self._legacy
        return iter(([], p))


def _legacy_for(prim, params):
    if prim is _loops.scan_p and "ft_in" in params:
        consts, carry, xs = params["ft_in"].unpack()
        return {"num_consts": len(list(consts)), "num_carry": len(list(carry))}
    return None


def _wrap(orig):
    def get_bind_params(self, params):
        out = orig(self, params)
        if isinstance(out, _BindParams):
            return out
        bp = _BindParams(out)
        bp._legacy = _legacy_for(self, out)
        return bp
    return get_bind_params

_seen = set()
def _patch(cls):
    if "get_bind_params" in cls.__dict__ and cls not in _seen:
        _seen.add(cls)
        cls.get_bind_params = _wrap(cls.__dict__["get_bind_params"])
    for sub in cls.__subclasses__():
        _patch(sub)
_patch(_c.Primitive)

# ---- autodiff legacy API ----
from jax._src.interpreters import ad as _ad
from jax._src import ad_util as _ad_util
import jax.extend.linear_util as _lu

if not hasattr(_ad_util.Zero, "from_primal_value"):
    _ad_util.Zero.from_primal_value = staticmethod(_ad_util.p2tz)

_orig_ad_jvp = _ad.jvp

class _LegacyJVP:
    def __init__(self, fun, instantiate=True):
        self.fun = fun
        self.instantiate = instantiate
    def call_wrapped(self, primals, tangents):
        tangents = [_ad.instantiate_zeros(t) for t in tangents]
        def f(*p):
            return self.fun.call_wrapped(*p)
        out_p, out_t = jax.jvp(f, tuple(primals), tuple(tangents))
        return out_p, out_t

def _jvp_dispatch(fun, *args, **kwargs):
    if not args and "primals" not in kwargs:
        # legacy: ad.jvp(wrapped_fun[, has_aux, instantiate]) -> object with call_wrapped
        return _LegacyJVP(fun, kwargs.get("instantiate", True))
    return _orig_ad_jvp(fun, *args, **kwargs)

_ad.jvp = _jvp_dispatch
import jax.interpreters.ad as _pub_ad
try:
    _pub_ad.jvp = _jvp_dispatch
except Exception:
    pass
