from __future__ import annotations

import argparse
import json
import os
import sys

ROOT = os.path.dirname(os.path.dirname(os.path.abspath(__file__)))

LEVELS = {"C14": "other"}


def main():
    ap = argparse.ArgumentParser()
    ap.add_argument("what")
    ap.add_argument("arg", nargs="?")
    ap.add_argument("--tier", default=os.environ.get("VERIF_TIER", "quick"))
    ap.add_argument("--only", nargs="*")
    ap.add_argument("--jobs", type=int, default=None)
    a = ap.parse_args()
    seed = int(os.environ.get("VERIF_SEED", "0"))
    os.chdir(ROOT)
    if a.what == "replay":
        return replay(a.arg)
    if a.what == "selftest":
        from . import selftest
        return selftest.main()
    prop = a.what
    os.environ["VERIF_TIER"] = a.tier
    from . import harness
    module = f"vlib.props.{prop}"
    return harness.run_property(prop, module, a.tier, seed, level=LEVELS.get(prop, "model_checking"),
                                only=a.only, jobs=a.jobs)


def replay(path):
    from . import harness
    d = json.load(open(path if os.path.isabs(path) else os.path.join(ROOT, path)))
    prop, gid = d["property"], d["group"]
    rp = {"env": d.get("env", {}), "ob": d.get("obligation")} if d.get("env") else None
    if rp is None:
        # structural / raises: just re-run the group and report that obligation
        res = harness.run_group_worker((prop, f"vlib.props.{prop}", gid, d.get("tier", "quick"), d.get("seed", 0), None))
        recs = [r for r in res["records"] if r["id"] == d["obligation"]]
    else:
        res = harness.run_group_worker((prop, f"vlib.props.{prop}", gid, d.get("tier", "quick"), d.get("seed", 0), rp))
        recs = [r for r in res["records"] if r["desc"] == d["obligation"]]
    if res.get("error"):
        print("replay error:", res["error"])
        return 2
    bad = [r for r in recs if r["verdict"] == "violation"]
    for r in recs:
        print(r["verdict"].upper(), r["id"], "--", r.get("detail", ""))
    if bad:
        print(f"VIOLATION property={prop} replay={path}")
        return 1
    print("not reproduced")
    return 0


if __name__ == "__main__":
    sys.exit(main())
