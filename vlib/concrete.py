"""Concrete side of the harness:

 * run_scripted: evaluate a Jaxpr with the REAL JAX/genjax primitive implementations, sample sites
   returning scripted outcomes (keyed by the same site ids symjax assigns) -- used for translator
   validation (symjax vs. real primitives) and for replaying solver counterexamples on the real code;
 * numeval: evaluate a z3 term under a concrete assignment with the intended meaning of the
   uninterpreted functions (Log = ln, ...).
"""
from __future__ import annotations

import math
from fractions import Fraction

import numpy as np
import z3

import jax
import jax.numpy as jnp
from jax.extend.core import Literal

from . import symjax as sj


# --------------------------------------------------------------------------- scripted interpreter
class Script:
    def __init__(self, outcomes=None, default=None):
        self.outcomes = outcomes or {}   # sid -> list of arrays
        self.default = default           # callable(sid, k, aval, inner) -> array
        self.path = ()
        self.counts = {}
        self.seen = []

    def site_id(self):
        k = self.counts.get(self.path, 0)
        self.counts[self.path] = k + 1
        return tuple(self.path) + (k,)


def _closed(j):
    if hasattr(j, "jaxpr") and hasattr(j, "consts"):
        return j.jaxpr, j.consts
    return j, ()


def run_scripted(script: Script, jaxpr, consts, *args):
    from genjax import pjax as pj
    env = {}

    def read(v):
        if isinstance(v, Literal):
            return v.val
        return env[v]

    for v, c in zip(jaxpr.constvars, consts):
        env[v] = c
    for v, a in zip(jaxpr.invars, args):
        env[v] = a
    for eqn in jaxpr.eqns:
        invals = [read(v) for v in eqn.invars]
        prim, inner = pj.PPPrimitive.unwrap(eqn.primitive)
        name = eqn.primitive.name
        p = eqn.params
        if prim in (pj.sample_p, pj.adev_sample_p):
            sid = script.site_id()
            script.seen.append(sid)
            outs = []
            for k, v in enumerate(eqn.outvars):
                if sid in script.outcomes:
                    val = script.outcomes[sid][k]
                else:
                    val = script.default(sid, k, v.aval, inner)
                outs.append(jnp.asarray(val, dtype=v.aval.dtype).reshape(v.aval.shape))
        elif name == "scan":
            if "ft_in" in p:
                c_ft, k_ft, x_ft = p["ft_in"].unpack()
                nc, nk = len(list(c_ft)), len(list(k_ft))
            else:
                nc, nk = p["num_consts"], p["num_carry"]
            cs, carry, xs = invals[:nc], list(invals[nc:nc + nk]), invals[nc + nk:]
            body, bconsts = _closed(p["jaxpr"])
            L = p["length"]
            order = range(L - 1, -1, -1) if p["reverse"] else range(L)
            per = {}
            saved = script.path
            for i in order:
                script.path = saved + (i,)
                o = run_scripted(script, body, bconsts, *cs, *carry, *[x[i] for x in xs])
                carry, per[i] = list(o[:nk]), o[nk:]
            script.path = saved
            ys = []
            for j in range(len(body.outvars) - nk):
                av = body.outvars[nk + j].aval
                if L == 0:
                    ys.append(jnp.zeros((0,) + tuple(av.shape), av.dtype))
                else:
                    ys.append(jnp.stack([per[i][j] for i in range(L)], axis=0))
            outs = carry + ys
        elif name == "cond":
            idx = int(np.asarray(invals[0]))
            br = p["branches"]
            bi = min(max(idx, 0), len(br) - 1)
            jp, cc = _closed(br[bi])
            saved = script.path
            script.path = saved + (f"br{bi}",)
            outs = run_scripted(script, jp, cc, *invals[1:])
            script.path = saved
        elif name == "while":
            cn, bn = p["cond_nconsts"], p["body_nconsts"]
            cj, cconsts = _closed(p["cond_jaxpr"])
            bj, bconsts = _closed(p["body_jaxpr"])
            cc, bc, carry = invals[:cn], invals[cn:cn + bn], list(invals[cn + bn:])
            saved = script.path
            it = 0
            while True:
                (c,) = run_scripted(script, cj, cconsts, *cc, *carry)
                if not bool(np.asarray(c)):
                    break
                script.path = saved + (it,)
                carry = run_scripted(script, bj, bconsts, *bc, *carry)
                it += 1
                if it > 10000:
                    raise RuntimeError("while does not terminate")
            script.path = saved
            outs = carry
        elif name in ("pjit", "jit", "closed_call", "core_call", "remat", "remat2", "checkpoint"):
            jp, cc = _closed(p.get("jaxpr") or p.get("call_jaxpr"))
            outs = run_scripted(script, jp, cc, *invals)
        elif name == "custom_jvp_call":
            jp, cc = _closed(p["call_jaxpr"])
            outs = run_scripted(script, jp, cc, *invals)
        elif name in ("custom_vjp_call", "custom_vjp_call_jaxpr"):
            jp, cc = _closed(p.get("call_jaxpr") or p.get("fun_jaxpr"))
            outs = run_scripted(script, jp, cc, *invals)
        else:
            bp = eqn.primitive.get_bind_params(eqn.params)
            try:
                subfuns, params = bp
            except Exception:
                subfuns, params = [], bp
            outs = eqn.primitive.bind(*subfuns, *invals, **params)
            if not eqn.primitive.multiple_results:
                outs = [outs]
        for v, o in zip(eqn.outvars, outs):
            env[v] = o
    return [read(v) for v in jaxpr.outvars]


# --------------------------------------------------------------------------- numeric evaluation of z3 terms
def _lgamma(x):
    return math.lgamma(x)


def _digamma(x):
    from scipy.special import digamma
    return float(digamma(x))


_UF_NUM = {
    "Log": lambda x: math.log(x) if x > 0 else (-math.inf if x == 0 else math.nan),
    "Exp": lambda x: math.exp(x) if x < 700 else math.inf,
    "Sqrt": lambda x: math.sqrt(x) if x >= 0 else math.nan,
    "Sin": math.sin, "Cos": math.cos, "Tan": math.tan, "Tanh": math.tanh,
    "Lgamma": _lgamma, "Erf": math.erf, "Erfc": math.erfc,
    "Asin": math.asin, "Acos": math.acos, "Atan": math.atan, "Sinh": math.sinh, "Cosh": math.cosh,
    "Asinh": math.asinh, "Atan2": math.atan2, "Pow": lambda a, b: math.pow(a, b),
    "Cbrt": lambda x: math.copysign(abs(x) ** (1 / 3), x),
    "Round": lambda x: float(np.round(x)),
    "Exp2": lambda x: 2.0 ** x,
    "Zeta": lambda a, b: float(__import__("scipy.special", fromlist=["zeta"]).zeta(a, b)),
    "Digamma": lambda x: float(__import__("scipy.special", fromlist=["digamma"]).digamma(x)),
    "Igamma": lambda a, x: float(__import__("scipy.special", fromlist=["gammainc"]).gammainc(a, x)),
}


class NumEvalError(Exception):
    pass


def numeval(t, env, cache=None):
    """env: name -> python number/bool. Returns float / int / bool."""
    if isinstance(t, sj.LogV):
        p = numeval(t.P, env, cache)
        return math.log(p) if p > 0 else -math.inf
    if isinstance(t, sj.XV):
        if numeval(t.nan, env, cache):
            return math.nan
        if numeval(t.pinf, env, cache):
            return math.inf
        if numeval(t.ninf, env, cache):
            return -math.inf
        return numeval(t.v, env, cache)
    cache = {} if cache is None else cache
    stack = [t]
    while stack:
        cur = stack[-1]
        cid = cur.get_id()
        if cid in cache:
            stack.pop()
            continue
        ch = cur.children()
        missing = [c for c in ch if c.get_id() not in cache]
        if missing:
            stack.extend(missing)
            continue
        stack.pop()
        cache[cid] = _eval_node(cur, [cache[c.get_id()] for c in ch], env)
    return cache[t.get_id()]


def _eval_node(t, a, env):
    k = t.decl().kind()
    Z = z3
    if Z.is_int_value(t):
        return t.as_long()
    if Z.is_rational_value(t):
        return t.numerator_as_long() / t.denominator_as_long()
    if Z.is_true(t):
        return True
    if Z.is_false(t):
        return False
    if k == Z.Z3_OP_UNINTERPRETED:
        name = t.decl().name()
        if not a:
            if name not in env:
                if name.startswith("uninit"):
                    return 0.0
                if name.startswith("nan!"):
                    return math.nan
                if name.startswith("posinf!"):
                    return math.inf
                raise NumEvalError(f"unassigned variable {name}")
            return env[name]
        if name in _UF_NUM:
            try:
                return _UF_NUM[name](*[float(x) for x in a])
            except (ValueError, OverflowError):
                return math.nan
        raise NumEvalError(f"no numeric meaning for {name}")
    if k == Z.Z3_OP_ADD:
        return sum(a)
    if k == Z.Z3_OP_SUB:
        r = a[0]
        for x in a[1:]:
            r = r - x
        return r
    if k == Z.Z3_OP_UMINUS:
        return -a[0]
    if k == Z.Z3_OP_MUL:
        r = 1
        for x in a:
            r = r * x
        return r
    if k == Z.Z3_OP_DIV:
        try:
            return a[0] / a[1]
        except ZeroDivisionError:
            return math.nan
    if k == Z.Z3_OP_IDIV:
        if a[1] == 0:
            return 0
        q = a[0] // a[1]
        if a[0] - q * a[1] < 0:
            q += 1
        return q
    if k == Z.Z3_OP_MOD:
        return a[0] % abs(a[1]) if a[1] != 0 else 0
    if k == Z.Z3_OP_TO_REAL:
        return float(a[0])
    if k == Z.Z3_OP_TO_INT:
        return math.floor(a[0])
    if k == Z.Z3_OP_ITE:
        return a[1] if a[0] else a[2]
    if k == Z.Z3_OP_AND:
        return all(a)
    if k == Z.Z3_OP_OR:
        return any(a)
    if k == Z.Z3_OP_NOT:
        return not a[0]
    if k == Z.Z3_OP_EQ:
        if isinstance(a[0], float) or isinstance(a[1], float):
            x, y = float(a[0]), float(a[1])
            if math.isnan(x) or math.isnan(y):
                return False
            return x == y or abs(x - y) <= 1e-5 * max(1.0, abs(x), abs(y))
        return a[0] == a[1]
    if k == Z.Z3_OP_DISTINCT:
        return len(set(a)) == len(a)
    if k == Z.Z3_OP_LE:
        return a[0] <= a[1]
    if k == Z.Z3_OP_LT:
        return a[0] < a[1]
    if k == Z.Z3_OP_GE:
        return a[0] >= a[1]
    if k == Z.Z3_OP_GT:
        return a[0] > a[1]
    if k == Z.Z3_OP_IMPLIES:
        return (not a[0]) or a[1]
    if k == Z.Z3_OP_XOR:
        return bool(a[0]) != bool(a[1])
    if k == Z.Z3_OP_POWER:
        return a[0] ** a[1]
    raise NumEvalError(f"op kind {k} ({t.decl().name()})")


def numeval_array(arr, env):
    arr = sj.obj(arr)
    cache = {}
    out = np.empty(arr.shape, dtype=object)
    for idx in np.ndindex(arr.shape):
        out[idx] = numeval(arr[idx], env, cache)
    return out


def model_env(model, terms):
    """assignment for all free variables of terms from a z3 model (model completion)."""
    env = {}
    for name, v in sj.free_vars(terms).items():
        val = model.eval(v, model_completion=True)
        env[name] = z3_to_py(val)
    return env


def z3_to_py(val):
    if z3.is_int_value(val):
        return val.as_long()
    if z3.is_rational_value(val):
        return val.numerator_as_long() / val.denominator_as_long()
    if z3.is_true(val):
        return True
    if z3.is_false(val):
        return False
    if z3.is_algebraic_value(val):
        a = val.approx(20)
        return a.numerator_as_long() / a.denominator_as_long()
    return val
