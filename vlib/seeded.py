"""Functions containing sampling sites, used as subjects of seed() in C06/C07/C14."""
from __future__ import annotations

import numpy as np
import jax
import jax.numpy as jnp

from . import corpus, refsem as rs

f32 = np.float32


def _raw_programs():
    from genjax import normal, flip, exponential, uniform

    def two_same(mu):
        # two equally parameterised continuous sites
        a = normal.sample(mu, 1.0)
        b = normal.sample(mu, 1.0)
        return a, b

    def lax_cond(mu):
        x = normal.sample(mu, 1.0)
        y = jax.lax.cond(x > 0.0, lambda m: normal.sample(m, 1.0), lambda m: exponential.sample(2.0) + m, x)
        z = normal.sample(y, 1.0)
        return x, y, z

    def nested_scan(xs):
        def outer(c, x):
            def inner(d, _):
                e = normal.sample(d, 1.0)
                return e, e
            d, es = jax.lax.scan(inner, c + x, None, length=2)
            u = uniform.sample(0.0, 1.0)
            return d + u, (es, u)
        return jax.lax.scan(outer, 0.0, xs)

    def kwargs_fn(mu, *, sigma):
        return normal.sample(mu, sigma), normal.sample(mu, sigma)

    def sample_shape(mu):
        v = normal.sample(mu, 1.0, sample_shape=(3,))
        w = flip.sample(0.5)
        return v, w

    def switch3(mu):
        i = jnp.asarray(1, dtype=jnp.int32)
        x = normal.sample(mu, 1.0)
        return jax.lax.switch(jnp.where(x > 0, 2, i), [lambda: normal.sample(0.0, 1.0), lambda: normal.sample(1.0, 1.0),
                                                       lambda: normal.sample(2.0, 1.0)])

    def nested_seed(mu):
        from genjax import seed
        a = normal.sample(mu, 1.0)
        k = jax.random.key(7)
        b = seed(lambda m: normal.sample(m, 1.0))(k, a)
        c = normal.sample(b, 1.0)
        return a, b, c

    FLAG = jnp.asarray(True)

    def cond_static_flag(mu):
        # the predicate is a closed-over CONCRETE value (a configuration flag): the interpreter sees a concrete branch
        # index, as it does for every cond when seed(f) runs eagerly
        y = jax.lax.cond(FLAG, lambda m: normal.sample(m, 1.0) + normal.sample(m, 2.0), lambda m: m * 2.0, mu)
        z = normal.sample(mu, 1.0)
        w = normal.sample(mu, 1.0)
        return y, z, w

    def scan_static_then_sites(mu):
        # a scan whose inputs are closed-over concrete values, then more sites
        c, ys = jax.lax.scan(lambda c, x: (c + normal.sample(x, 1.0), c), jnp.float32(0.0), jnp.asarray([0.1, 0.2], dtype=jnp.float32))
        a = normal.sample(mu, 1.0)
        b = normal.sample(mu, 1.0)
        return c, ys, a, b

    def adev_sites(mu):
        # ADEV estimator sites run forward under seed (as simulate of a guide does), interleaved with plain sites
        from genjax.adev import normal_reparam, normal_reinforce, uniform_reparam
        a = normal_reparam(mu, 1.0)
        b = normal.sample(mu, 1.0)
        c = normal_reinforce(mu, 1.0)
        d = uniform_reparam(0.0, 1.0)
        e = uniform.sample(0.0, 1.0)
        return a, b, c, d, e

    def adev_in_scan(xs):
        from genjax.adev import normal_reparam
        def body(c, x):
            z = normal_reparam(c + x, 1.0)
            w = normal.sample(z, 1.0)
            return w, (z, w)
        return jax.lax.scan(body, 0.0, xs)

    return [
        ("raw_adev_sites", adev_sites, (f32(0.3),), {}),
        ("raw_adev_in_scan", adev_in_scan, (np.asarray([0.1, 0.2], dtype=np.float32),), {}),
        ("raw_cond_static_flag", cond_static_flag, (f32(0.3),), {}),
        ("raw_scan_static_then_sites", scan_static_then_sites, (f32(0.3),), {}),
        ("raw_two_same", two_same, (f32(0.3),), {}),
        ("raw_lax_cond", lax_cond, (f32(0.3),), {}),
        ("raw_nested_scan", nested_scan, (np.asarray([0.1, 0.2], dtype=np.float32),), {}),
        ("raw_kwargs", kwargs_fn, (f32(0.3),), {"sigma": f32(0.5)}),
        ("raw_sample_shape", sample_shape, (f32(0.3),), {}),
        ("raw_switch", switch3, (f32(0.3),), {}),
        ("raw_nested_seed", nested_seed, (f32(0.3),), {}),
    ]


def programs(tier="quick"):
    """(name, fn, args, kwargs, case_or_None): fn is the UNSEEDED function"""
    out = []
    names = ["two_normals", "mixed", "nested", "vmapped", "repeated", "scanned", "branching", "kw", "vector_site"]
    if tier == "thorough":
        names += ["scan_cond", "vmap_nested", "top_scan", "top_vmap", "cond_dist", "vmap_int_axes"]
    for n in names:
        case = corpus.get(n)
        gf = rs.to_genjax(case.prog)

        def mk(gf):
            def sim(*a, **kw):
                tr = gf.simulate(*a, **kw)
                return tr, tr.get_choices(), tr.get_score(), tr.get_retval()
            return sim
        out.append((f"simulate_{n}", mk(gf), tuple(case.args), dict(case.kwargs), case))
    for name, fn, args, kw in _raw_programs():
        out.append((name, fn, args, kw, None))
    return out


def get(name, tier="thorough"):
    for p in programs(tier):
        if p[0] == name:
            return p
    raise KeyError(name)
