"""PRNG-key hygiene analysis on the consumed key terms recorded by symjax (free key algebra)."""
from __future__ import annotations

import z3

from . import symjax as sj


def subterms(t):
    stack, seen, out = [t], set(), []
    while stack:
        c = stack.pop()
        if c.get_id() in seen:
            continue
        seen.add(c.get_id())
        out.append(c)
        stack.extend(c.children())
    return out


def has_const_key(t):
    """a Seeded(...) constructor anywhere in the key term: a key that does not derive from the argument key"""
    return any(z3.is_app(c) and c.decl().name() in ("Seeded", "KeyOfData") for c in subterms(t))


def derives_from(t, root):
    return any(c.eq(root) for c in subterms(t))


def exclusive(p1, p2):
    """two evaluation paths lie in different branches of the same cond (mutually exclusive executions)"""
    for a, b in zip(p1, p2):
        if a != b:
            return isinstance(a, str) and isinstance(b, str) and a.startswith("br") and b.startswith("br")
    return False


def hygiene_goals(consumed):
    """PRNG discipline as (description, z3 goal) pairs over the consumed key terms:
      - every key whose bits are drawn is distinct from every other key whose bits are drawn,
      - a key whose bits are drawn is never also split or folded,
      - no key is split twice, no (key, data) pair is folded twice."""
    bits = [c for c in consumed if c[0] == "bits"]
    splits = [c for c in consumed if c[0] == "split"]
    folds = [c for c in consumed if c[0] == "fold"]
    goals = []
    for i, a in enumerate(bits):
        for b in bits[i + 1:]:
            if exclusive(a[2], b[2]):
                continue
            goals.append(("two random draws never use the same key", a[1] != b[1]))
        for b in splits + folds:
            if exclusive(a[2], b[2]):
                continue
            goals.append(("a key used for a draw is never also split/folded", a[1] != b[1]))
    for i, a in enumerate(splits):
        for b in splits[i + 1:]:
            if exclusive(a[2], b[2]):
                continue
            goals.append(("no key is split twice", a[1] != b[1]))
    for i, a in enumerate(folds):
        for b in folds[i + 1:]:
            if exclusive(a[2], b[2]):
                continue
            goals.append(("no (key, data) pair is folded twice", z3.Or(a[1] != b[1], a[3] != b[3])))
    return goals
