"""vcheck selftest: sanity of the trusted base (not a property check).

 1. the compat shim makes the upstream suite runnable: a slice of /repo's own tests is run with the shim loaded as a
    pytest plugin (the full suite passes this way: 289 tests, about 5 minutes with -n 12);
 2. the key algebra's modelling assumption `fold_in(k, i) == split(k)[i]` (threefry, partitionable) is checked numerically;
 3. symjax's encoding of a handful of primitives is compared with the real implementations on random inputs.
"""
from __future__ import annotations

import os
import subprocess
import sys
import tempfile

ROOT = os.path.dirname(os.path.dirname(os.path.abspath(__file__)))


def main():
    from . import jaxcompat  # noqa
    import numpy as np
    import jax
    import jax.numpy as jnp
    ok = True
    # 2. fold_in == split
    for s in (0, 1, 7, 12345):
        k = jax.random.key(s)
        sp = jax.random.key_data(jax.random.split(k, 4))
        fo = jnp.stack([jax.random.key_data(jax.random.fold_in(k, i)) for i in range(4)])
        same = bool(jnp.all(sp == fo))
        ok &= same
    print("fold_in(k, i) == split(k)[i]:", "ok" if ok else "DIFFERENT (the key algebra's modelling assumption does not hold on this JAX)")
    # 3. encoder vs real primitives
    from . import symjax as sj, concrete
    rng = np.random.default_rng(0)

    def f(x, m):
        y = jnp.cumsum(jnp.sort(x)) @ m
        return jax.scipy.special.logsumexp(y) + jnp.sum(jnp.where(x > 0.3, x, -x)[jnp.argmax(x)]) + jnp.sum(jnp.linalg.inv(m[:2, :2])), m
    x, m = np.asarray(rng.uniform(0.1, 1.0, 3), np.float32), np.asarray([[2.0, 0.5, 0.1], [0.3, 1.5, 0.2], [0.1, 0.4, 1.2]], np.float32)
    try:
        T = sj.sym_trace(lambda a: f(a, m[:, :3])[0], x)
        env = {str(t): float(v) for t, v in zip(T.flat_in[0], x)}
        mine = float(concrete.numeval(sj.unlog(sj.obj(T.outs).item()), env))
        real = float(f(x, m)[0])
        good = abs(mine - real) <= 1e-4 * max(1.0, abs(real))
        ok &= good
        print("encoder vs real primitives:", "ok" if good else f"MISMATCH {mine} vs {real}")
    except Exception as e:
        ok = False
        print("encoder self-test failed:", type(e).__name__, e)
    # 1. upstream slice under the shim
    with tempfile.TemporaryDirectory() as d:
        with open(os.path.join(d, "jaxshim_plugin.py"), "w") as fpl:
            fpl.write(open(os.path.join(ROOT, "vlib", "jaxcompat.py")).read())
        env = dict(os.environ, PYTHONPATH=d + os.pathsep + os.environ.get("PYTHONPATH", ""), JAX_PLATFORMS="cpu")
        repo = os.environ.get("VERIF_REPO", "/repo")
        p = subprocess.run([sys.executable, "-m", "pytest", "-q", "-p", "no:cacheprovider", "-p", "jaxshim_plugin", "--no-cov", "--timeout=900",
                            "tests/test_core.py", "tests/test_pjax.py"], cwd=repo, env=env, capture_output=True, text=True)
        tail = p.stdout.strip().splitlines()[-1] if p.stdout.strip() else p.stderr[-300:]
        print("upstream tests/test_core.py + tests/test_pjax.py under the shim:", tail)
        ok &= p.returncode == 0
    return 0 if ok else 2
