"""Corpus of modelling-language programs (reference AST, see refsem) with example arguments.

All float constants are exactly representable in float32.  Example argument values only fix
shapes/dtypes (and serve as concrete points for translator validation); the solver quantifies
over all values."""
from __future__ import annotations

import numpy as np

from .refsem import Dist, Fn, Sample, Let, VmapC, ScanC, CondC

f32 = np.float32


def A(*xs):
    return np.asarray(xs, dtype=np.float32)


class Case:
    def __init__(self, name, prog, args, kwargs=None, features=(), tier="quick", addr_note=""):
        self.name, self.prog, self.args, self.kwargs = name, prog, list(args), dict(kwargs or {})
        self.features, self.tier = set(features), tier


normal, exponential, flip, uniform, categorical, bernoulli, laplace = (
    Dist(n) for n in ("normal", "exponential", "flip", "uniform", "categorical", "bernoulli", "laplace"))


def build():
    cases = []

    # 1. two dependent normal sites
    p = Fn("two_normals", ["mu", "sigma"], [
        Sample("x", "x", normal, ["mu", "1.0"]),
        Sample("y", "y", normal, ["x * 0.5", "sigma"]),
    ], "x + y")
    cases.append(Case("two_normals", p, [f32(0.3), f32(1.5)], features={"fn", "normal"}))

    # 2. mixed families, boolean feeding a parameter
    p = Fn("mixed", ["p", "rate", "lo"], [
        Sample("b", "b", flip, ["p"]),
        Sample("e", "e", exponential, ["rate"]),
        Sample("u", "u", uniform, ["lo", "lo + 2.0"]),
        Sample("y", "y", normal, ["o.where(b, e, u)", "1.0"]),
    ], "y * 2.0")
    cases.append(Case("mixed", p, [f32(0.25), f32(2.0), f32(-1.0)], features={"fn", "flip", "exponential", "uniform"}))

    # 3. nested @gen call
    inner = Fn("inner", ["m"], [Sample("z", "z", normal, ["m", "1.0"])], "z * 2.0")
    p = Fn("nested", ["s"], [
        Sample("a", "a", normal, ["0.0", "1.0"]),
        Sample("r", "sub", inner, ["a"]),
        Sample("y", "y", normal, ["r", "s"]),
    ], "r + y")
    cases.append(Case("nested", p, [f32(0.5)], features={"fn", "call"}))

    # 4. Vmap over a @gen callee, in_axes=(0, None)
    sub = Fn("lane", ["m", "s"], [Sample("x", "x", normal, ["m", "s"])], "x * 2.0")
    p = Fn("vmapped", ["ms", "s"], [
        Sample("r", "v", VmapC(sub, in_axes=(0, None)), ["ms", "s"]),
        Sample("y", "y", normal, ["o.sum(r)", "1.0"]),
    ], "y")
    cases.append(Case("vmapped", p, [A(0.1, -0.2), f32(0.75)], features={"fn", "vmap"}))

    # 5. repeat (in_axes=None, axis_size=n) of a distribution-valued callee
    p = Fn("repeated", ["m"], [
        Sample("r", "v", VmapC(sub, in_axes=None, axis_size=2), ["m", "0.5"]),
    ], "o.sum(r)")
    cases.append(Case("repeated", p, [f32(0.2)], features={"fn", "vmap", "repeat"}))

    # 6. Scan
    step = Fn("step", ["c", "x"], [Sample("z", "z", normal, ["c + x", "1.0"])], "(z * 2.0, z)")
    p = Fn("scanned", ["mu", "xs"], [
        Sample("a", "a", normal, ["mu", "1.0"]),
        Sample("fo", "s", ScanC(step, 3), ["a", "xs"]),
    ], "fo[0] + o.sum(fo[1])")
    cases.append(Case("scanned", p, [f32(0.3), A(0.1, 0.2, 0.3)], features={"fn", "scan"}))

    # 7. Cond whose condition depends on an earlier choice; branches share the address
    b0 = Fn("b0", ["m"], [Sample("v", "v", normal, ["m", "1.0"])], "v")
    b1 = Fn("b1", ["m"], [Sample("v", "v", normal, ["m + 4.0", "2.0"])], "v * 0.5")
    p = Fn("branching", ["mu"], [
        Sample("a", "a", normal, ["mu", "1.0"]),
        Sample("w", "c", CondC(b0, b1), ["a > 0.0", "a"]),
    ], "w + a")
    cases.append(Case("branching", p, [f32(0.3)], features={"fn", "cond"}))

    # 8. keyword arguments
    p = Fn("kw", ["mu"], [
        Sample("x", "x", normal, ["mu", "sigma"]),
        Sample("y", "y", laplace, ["x", "sigma * 2.0"]),
    ], "x - y", kwparams=["sigma"])
    cases.append(Case("kw", p, [f32(0.3)], {"sigma": f32(0.5)}, features={"fn", "kwargs"}))

    # 9. vector-valued site (batch shape (2,)) and categorical
    p = Fn("vector_site", ["mu", "logits"], [
        Sample("k", "k", categorical, ["logits"]),
        Sample("x", "x", normal, ["o.zeros(2) + mu", "1.0"]),
        Sample("y", "y", normal, ["o.sum(x) + o.f32(k)", "0.5"]),
    ], "y")
    cases.append(Case("vector_site", p, [f32(0.3), A(0.1, 0.2, -0.3)], features={"fn", "categorical", "vector"}))

    # 10. top-level combinators (not wrapped in @gen)
    cases.append(Case("top_vmap", VmapC(sub, in_axes=(0, 0)), [A(0.1, -0.2), A(0.5, 1.5)], features={"vmap", "top"}))
    cases.append(Case("top_scan", ScanC(step, 2), [f32(0.1), A(0.2, 0.3)], features={"scan", "top"}))
    cases.append(Case("top_cond", CondC(b0, b1), [np.bool_(True), f32(0.3)], features={"cond", "top"}))
    cases.append(Case("top_dist", normal, [f32(0.3), f32(1.5)], features={"dist", "top"}))

    # 11. Scan whose step contains a Cond, inside a @gen function
    cstep = Fn("cstep", ["c", "x"], [
        Sample("w", "w", CondC(b0, b1), ["c > x", "c"]),
    ], "(w, w + x)")
    p = Fn("scan_cond", ["xs"], [
        Sample("fo", "s", ScanC(cstep, 2), ["0.5", "xs"]),
    ], "fo[0]")
    cases.append(Case("scan_cond", p, [A(0.2, -0.3)], features={"fn", "scan", "cond"}, tier="thorough"))

    # 12. Vmap of a callee with a nested call and two sites
    two = Fn("two", ["m"], [
        Sample("a", "a", normal, ["m", "1.0"]),
        Sample("r", "sub", inner, ["a"]),
    ], "r + a")
    p = Fn("vmap_nested", ["ms"], [
        Sample("r", "v", VmapC(two, in_axes=(0,)), ["ms"]),
    ], "o.sum(r)")
    cases.append(Case("vmap_nested", p, [A(0.1, -0.2)], features={"fn", "vmap", "call"}, tier="thorough"))

    # 13. Vmap with default integer in_axes (the default of gf.vmap())
    p = Fn("vmap_int_axes", ["ms"], [
        Sample("r", "v", VmapC(inner, in_axes=0), ["ms"]),
    ], "o.sum(r)")
    cases.append(Case("vmap_int_axes", p, [A(0.1, -0.2)], features={"fn", "vmap", "int_axes"}))

    # 14. Cond with Distribution branches (no @gen wrapper)
    p = Fn("cond_dist", ["mu"], [
        Sample("a", "a", normal, ["mu", "1.0"]),
        Sample("w", "c", CondC(normal, laplace), ["a > 0.0", "a", "1.0"]),
    ], "w")
    cases.append(Case("cond_dist", p, [f32(0.3)], features={"fn", "cond", "cond_dist"}))

    # 15. Cond whose branches call a sub-function (nested addresses inside the branches)
    pa = Fn("pa", ["m"], [Sample("a", "a", normal, ["m", "1.0"]), Sample("b", "b", normal, ["a", "1.0"])], "a + b")
    pb = Fn("pb", ["m"], [Sample("a", "a", normal, ["m + 2.0", "1.0"]), Sample("b", "b", normal, ["a * 0.5", "2.0"])], "a - b")
    cA = Fn("cA", ["m"], [Sample("r", "p", pa, ["m"])], "r")
    cB = Fn("cB", ["m"], [Sample("r", "p", pb, ["m"])], "r * 0.5")
    p = Fn("cond_nested", ["mu"], [
        Sample("z", "z", normal, ["mu", "1.0"]),
        Sample("w", "c", CondC(cA, cB), ["z > 0.0", "z"]),
    ], "w + z")
    cases.append(Case("cond_nested", p, [f32(0.3)], features={"fn", "cond", "call"}))

    # 16. Cond whose branches have DIFFERENT supports (the untaken branch assigns density 0 to the visible value)
    u0 = Fn("u0", ["m"], [Sample("v", "v", uniform, ["m", "m + 1.0"])], "v")
    u1 = Fn("u1", ["m"], [Sample("v", "v", uniform, ["m + 2.0", "m + 4.0"])], "v * 0.5")
    p = Fn("cond_supports", ["mu"], [
        Sample("b", "b", flip, ["0.5"]),
        Sample("w", "c", CondC(u0, u1), ["b", "mu"]),
    ], "w")
    cases.append(Case("cond_supports", p, [f32(0.0)], features={"fn", "cond", "supports"}))

    # 17. a combinator applied DIRECTLY to a combinator (two stacked axes in every score), next to another site
    p = Fn("vmap_of_scan", ["mu", "xs"], [
        Sample("a", "a", normal, ["mu", "2.0"]),
        Sample("fo", "w", VmapC(ScanC(step, 2), in_axes=(0, None)), ["o.stack([a, 0.0 - a])", "xs"]),
    ], "o.sum(fo[0])")
    cases.append(Case("vmap_of_scan", p, [f32(0.3), A(0.2, 0.3)], features={"fn", "vmap", "scan", "stacked"}))

    # ---- C08: axis specifications of the Vmap combinator (tier "c08": only used by vlib/props/C08.py) ----------
    vlane = Fn("vlane", ["m", "s"], [Sample("x", "x", normal, ["o.sum(m)", "s"])], "x * 2.0 + m[0]")
    cases.append(Case("c08_axis1", Fn("c08_axis1", ["M", "s"], [
        Sample("r", "v", VmapC(vlane, in_axes=(1, None)), ["M", "s"]),
    ], "o.sum(r)"), [np.asarray([[0.1, -0.2], [0.3, 0.4], [0.5, -0.6]], dtype=np.float32), f32(0.75)],
        features={"vmap", "axis1"}, tier="c08"))
    cases.append(Case("c08_none_first", VmapC(sub, in_axes=(None, 0)), [f32(0.25), A(0.5, 1.5, 0.75)],
                      features={"vmap", "none_first"}, tier="c08"))
    dlane = Fn("dlane", ["d"], [Sample("x", "x", normal, ["d['a'] + d['b']", "1.0"])], "x + d['b']")
    cases.append(Case("c08_dict_axes", VmapC(dlane, in_axes=({"a": 0, "b": None},)), [{"a": A(0.1, -0.2), "b": f32(0.5)}],
                      features={"vmap", "pytree_axes"}, tier="c08"))
    cases.append(Case("c08_nested_vmap", VmapC(VmapC(sub, in_axes=(0, None)), in_axes=(0, None)),
                      [np.asarray([[0.1, -0.2, 0.3], [0.4, 0.5, -0.6]], dtype=np.float32), f32(0.75)],
                      features={"vmap", "nested"}, tier="c08"))
    cases.append(Case("c08_size_and_axes", VmapC(sub, in_axes=(0, None), axis_size=2), [A(0.1, -0.2), f32(0.75)],
                      features={"vmap", "axis_size"}, tier="c08"))
    slane = Fn("slane", ["m", "xs"], [Sample("fo", "s", ScanC(step, 2), ["m", "xs"])], "fo[0]")
    cases.append(Case("c08_vmap_scan", VmapC(slane, in_axes=(0, None)), [A(0.1, -0.2), A(0.2, 0.3)],
                      features={"vmap", "scan"}, tier="c08"))
    clane = Fn("clane", ["m"], [Sample("w", "c", CondC(b0, b1), ["m > 0.0", "m"])], "w")
    cases.append(Case("c08_vmap_cond", VmapC(clane, in_axes=(0,)), [A(0.1, -0.2)], features={"vmap", "cond"}, tier="c08"))
    veclane = Fn("veclane", ["m", "sv"], [Sample("x", "x", normal, ["o.zeros(3) + m", "sv"])], "o.sum(x)")
    cases.append(Case("c08_vmap_vecsite", VmapC(veclane, in_axes=(0, None)), [A(0.1, -0.2, 0.3), A(0.5, 1.0, 2.0)],
                      features={"vmap", "rank"}, tier="c08"))
    catlane = Fn("catlane", ["l"], [Sample("k", "k", categorical, ["l"])], "k")
    cases.append(Case("c08_vmap_cat_axis1", VmapC(catlane, in_axes=(1,)),
                      [np.asarray([[0.1, -0.2], [0.3, 0.4], [0.5, -0.6]], dtype=np.float32)], features={"vmap", "axis1", "categorical"}, tier="c08"))

    return cases


_CASES = None


def cases(tier="quick"):
    global _CASES
    if _CASES is None:
        _CASES = build()
    if tier == "c08":
        return [c for c in _CASES if c.tier == "c08"]
    return [c for c in _CASES if c.tier == "quick" or (tier == "thorough" and c.tier == "thorough")]


def get(name):
    cases("quick")
    for c in _CASES:
        if c.name == name:
            return c
    raise KeyError(name)
