"""Drive CrossHair (symbolic execution of pure Python with z3) on generated harness modules."""
from __future__ import annotations

import os
import re
import shutil
import subprocess
import sys
import tempfile
import time

ROOT = os.path.dirname(os.path.dirname(os.path.dirname(os.path.abspath(__file__))))

PRELUDE = '''import sys
for _h in sys.path_hooks:
    if not hasattr(_h, "__qualname__"):
        try:
            _h.__qualname__ = type(_h).__name__
        except Exception:
            pass
sys.path.insert(0, %r)
import vlib.jaxcompat  # noqa
''' % ROOT


def run_units(units, extra_prelude="", timeout_s=40, jobs=8):
    """units: list of (name, function_source).  Returns {name: (verdict, detail, seconds)} with verdict in
    confirmed | counterexample | unknown | error."""
    scratch = os.path.join(ROOT, ".scratch")
    os.makedirs(scratch, exist_ok=True)
    d = tempfile.mkdtemp(prefix="ch_", dir=scratch)
    try:
        src = PRELUDE + extra_prelude + "\n\n"
        lines = {}
        for name, fsrc in units:
            lines[name] = src.count("\n") + 2
            src += fsrc.rstrip() + "\n\n\n"
        path = os.path.join(d, "chmod_units.py")
        with open(path, "w") as f:
            f.write(src)
        procs = {}
        results = {}
        pending = list(units)
        py = sys.executable
        # VERIF_REPO=<checkout>: analyse that checkout of femtomc/genjax instead of the editable install (/repo)
        pp = ROOT if not os.environ.get("VERIF_REPO") else os.path.join(os.environ["VERIF_REPO"], "src") + os.pathsep + ROOT
        env = dict(os.environ, PYTHONPATH=pp, JAX_PLATFORMS="cpu")
        while pending or procs:
            while pending and len(procs) < jobs:
                name, _ = pending.pop(0)
                cmd = [py, "-m", "crosshair", "check", "--report_all", "--per_condition_timeout", str(timeout_s),
                       f"{path}:{lines[name]}"]
                procs[name] = (subprocess.Popen(cmd, cwd=d, env=env, stdout=subprocess.PIPE, stderr=subprocess.PIPE,
                                                text=True), time.time())
            time.sleep(0.2)
            for name in list(procs):
                p, t0 = procs[name]
                if p.poll() is not None:
                    out, err = p.communicate()
                    results[name] = _parse(name, out, err) + (round(time.time() - t0, 1),)
                    del procs[name]
                elif time.time() - t0 > timeout_s * 3 + 90:
                    p.kill()
                    p.communicate()
                    results[name] = ("unknown", "crosshair process timed out", round(time.time() - t0, 1))
                    del procs[name]
        return results, path, d
    except Exception:
        shutil.rmtree(d, ignore_errors=True)
        raise


def _parse(name, out, err):
    for line in out.splitlines():
        if "info: Confirmed over all paths" in line:
            return ("confirmed", "Confirmed over all paths")
        m = re.search(r"error: (.*)$", line)
        if m:
            return ("counterexample", m.group(1))
        if "Not confirmed" in line or "Unable to meet precondition" in line:
            return ("unknown", line.split("info:")[-1].strip())
    tail = (err or "").strip().splitlines()[-3:]
    return ("error", "no verdict line; " + " | ".join(tail)[:300])


def replay_counterexample(module_path, detail):
    """re-run the concrete call CrossHair reported, outside CrossHair. Returns (reproduced, text)."""
    m = re.search(r"when calling (\w+\(.*\)) \(which (returns|raises)", detail)
    if not m:
        m = re.search(r"when calling (\w+\(.*\))", detail)
    if not m:
        return None, "cannot parse counterexample"
    call = m.group(1)
    code = f"import runpy, sys\nns = runpy.run_path({module_path!r})\ntry:\n    r = eval({call!r}, ns)\nexcept Exception as e:\n    r = ('raised', type(e).__name__, str(e)[:200])\nprint('RESULT', repr(r))\n"
    p = subprocess.run([sys.executable, "-c", code], capture_output=True, text=True,
                       env=dict(os.environ, PYTHONPATH=(ROOT if not os.environ.get("VERIF_REPO") else
                                                        os.path.join(os.environ["VERIF_REPO"], "src") + os.pathsep + ROOT),
                                JAX_PLATFORMS="cpu"), timeout=300)
    m2 = re.search(r"RESULT (.*)", p.stdout)
    if not m2:
        return None, "replay produced no result: " + p.stderr[-300:]
    res = m2.group(1)
    return (res != "True"), f"{call} -> {res}"
