"""Helpers shared by the GFI property harnesses (C01-C05, C08-C10)."""
from __future__ import annotations

import itertools

import numpy as np
import z3

import jax
import jax.numpy as jnp

from . import symjax as sj, solve, refsem as rs


def zeros_like_shape(tree):
    return jax.tree_util.tree_map(lambda s: jnp.zeros(s.shape, s.dtype), tree)


def example_trace(gf, args, kwargs):
    """a concrete (all-zeros) trace with the structure simulate returns (abstract evaluation only)"""
    shp = jax.eval_shape(lambda a, kw: gf.simulate(*a, **kw), tuple(args), dict(kwargs))
    return zeros_like_shape(shp)


def example_choices(gf, args, kwargs):
    shp = jax.eval_shape(lambda a, kw: gf.simulate(*a, **kw).get_choices(), tuple(args), dict(kwargs))
    return zeros_like_shape(shp)


def leaf_paths(cm, prefix=()):
    """leaf paths of a nested-dict choice map"""
    if isinstance(cm, dict):
        out = []
        for k, v in cm.items():
            out += leaf_paths(v, prefix + (k,))
        return out
    return [prefix]


def subsets(paths, max_k=5):
    paths = list(paths)[:max_k]
    for r in range(len(paths) + 1):
        for c in itertools.combinations(paths, r):
            yield list(c)


def var_site_map(T):
    """outcome variable name -> (site, out_index k, element index)"""
    m = {}
    for s in T.sites:
        for k, o in enumerate(s.outs):
            for idx in np.ndindex(o.shape):
                m[str(o[idx])] = (s, k, idx)
    return m


def _param_slices(params, event_ndims, idx_batch):
    """for batch index idx_batch (aligned to the broadcast batch shape from the right) return the
    event-slice of every parameter"""
    out = []
    for p, ne in zip(params, event_ndims):
        p = sj.obj(p)
        bshape = p.shape[:p.ndim - ne] if ne else p.shape
        nb = len(bshape)
        take = idx_batch[len(idx_batch) - nb:] if nb else ()
        take = tuple(0 if bshape[d] == 1 else take[d] for d in range(nb))
        out.append(sj.obj(p[take]))
    return out


def site_law_obligations(g, T, rctx, desc, expect_fresh, assumptions=()):
    """Law obligations for the reference sites in rctx whose path is in expect_fresh:
    every element of the visible value is an outcome variable of a real sample site of the right
    family whose TFP parameters for that element equal the reference parameters; all such
    variables are distinct (independent draws).  expect_fresh: dict path(tuple of addr only) -> bool"""
    vmap_ = var_site_map(T)
    used = set()
    for rec in rctx.sites:
        apath = tuple(k for k in rec.path if isinstance(k, str))
        if not expect_fresh(apath, rec):
            continue
        fam = rec.family
        val = sj.obj(rec.value)
        ev_nd = fam.event_ndims
        goals = []
        ok_struct, why = True, ""
        for idx in np.ndindex(*val.shape):
            t = val[idx]
            nm = str(t)
            if not (z3.is_const(t) and nm in vmap_):
                ok_struct, why = False, f"value element {list(idx)} at {rec.path} is not a fresh draw: {str(t)[:80]}"
                break
            if nm in used:
                ok_struct, why = False, f"draw {nm} is used for more than one choice element (not independent)"
                break
            used.add(nm)
            site, k, oidx = vmap_[nm]
            sname = (site.name or "").lower()
            if sname != fam.gj_name.replace("_", "").lower() and sname.replace("_", "") != fam.name.replace("_", ""):
                ok_struct, why = False, f"site family {site.name!r} where the program says {fam.name}"
                break
            # parameters of the real site for this output element
            try:
                sargs, skw = _site_args(site)
            except Exception as e:
                ok_struct, why = False, f"cannot read site arguments: {e}"
                break
            ns = len(site.sample_shape)
            o = sj.obj(site.outs[k])
            b_idx = oidx[ns:o.ndim - ev_nd] if ev_nd else oidx[ns:]
            real_ps = _param_slices(sargs, fam.param_event_ndims, b_idx)
            # reference parameters for value element idx
            r_b_idx = idx[:val.ndim - ev_nd] if ev_nd else idx
            ref_ps = _param_slices(rec.params, fam.param_event_ndims, r_b_idx)
            if len(real_ps) != len(ref_ps):
                ok_struct, why = False, "different number of parameters"
                break
            for a, b in zip(real_ps, ref_ps):
                goals.append(solve.eq_arrays(a, b))
        name = f"{desc}: law of {'/'.join(map(str, rec.path))}"
        if not ok_struct:
            g.ok(name, False, why)
        else:
            g.holds(name, z3.And(*goals) if goals else z3.BoolVal(True), assumptions)


def _site_args(site):
    tree = site.arg_tree()
    # in_tree is either (args...) or ((args...), {kwargs})
    if site.inner.get("yes_kwargs"):
        args, kw = tree
        return list(args), dict(kw)
    return list(tree), {}


def neg(a):
    return sj.ew(sj.s_neg)(None, None, a)


def add(a, b):
    return sj.ew(sj.s_add)(None, None, a, b)


def sub(a, b):
    return sj.ew(sj.s_sub)(None, None, a, b)


def scalar_sum(a):
    return rs._sum(a)


def cond_checks(t, acc=None):
    """conditions of all Cond nodes of a reference trace (for case splitting / same-branch assumptions)"""
    acc = [] if acc is None else acc
    if t.kind == "tr":
        if isinstance(t.choices, dict):
            for v in t.choices.values():
                cond_checks(v, acc)
    elif t.kind == "scan":
        cond_checks(t.traces, acc)
    elif t.kind == "cond":
        acc.append(t.check)
        cond_checks(t.trs[0], acc)
        cond_checks(t.trs[1], acc)
    return acc


def check_cases(*refs, limit=3):
    """scalar Cond conditions of the given reference traces as z3 Bools (at most `limit`), for case splitting"""
    out = []
    for r in refs:
        for c in cond_checks(r):
            c = sj.obj(c)
            if c.ndim == 0:
                t = sj.unlog(c.item())
                if not any(t.eq(o) for o in out):
                    out.append(t)
    return out[:limit]
