"""Obligation bookkeeping, replay, parallel runner, evidence and exit codes."""
from __future__ import annotations

import hashlib
import importlib
import re
import json
import math
import os
import sys
import time
import traceback

import numpy as np

ROOT = os.path.dirname(os.path.dirname(os.path.abspath(__file__)))

TRUSTED_BASE = [
    "vlib/jaxcompat.py: harness-side shim restoring the JAX<=0.7 internal API genjax was written against (patches JAX only)",
    "JAX tracing (make_jaxpr) as the symbolic execution of the Python source; primitive semantics as encoded in vlib/symjax.py (differentially validated against the real primitive implementations on every traced program)",
    "floats modelled as mathematical reals, ints as mathematical integers; transcendental functions uninterpreted + sound rewrites; where a group says 'NaN/inf aware' every float is an extended real (NaN, +inf, -inf or finite; signed zeros not modelled)",
    "TensorFlow Probability's documented sampling/log_prob contract for the named distribution objects",
    "z3 5.1 (verdicts), /usr/bin/z3 4.8.12 as second opinion on a sample of queries",
]


class Record(dict):
    pass


class Group:
    """Context handed to a property's group function: traces real code, discharges obligations."""

    def __init__(self, prop, gid, tier="quick", seed=0, replay=None):
        self.prop, self.gid, self.tier, self.seed = prop, gid, tier, seed
        self.records: list[Record] = []
        self.traces = []          # Traced objects (for validation / replay)
        self.assumptions = []
        self.validated = 0
        self.twins_ok = 0
        self.fault_twins_ok = 0
        self.functions = set()
        self.programs = set()
        self.samples = []
        self.replay = replay      # None or dict(env=..., ob=...)
        self.second = 0
        self._nontrivial = set()
        self.prims = set()

    # ------------------------------------------------------------------ tracing
    def trace(self, fn, *ex_args, label="", **kw):
        from . import symjax as sj
        T = sj.sym_trace(fn, *ex_args, **kw)
        T.label = label
        self.traces.append(T)
        self.prims |= T.ctx.prims_seen
        return T

    def try_trace(self, desc, fn, *ex_args, **kw):
        """tracing must succeed (definedness obligations).  Returns Traced or None; an exception
        raised by the code under test while it is traced (symbolic execution of the source: no values involved)
        is a violation for ALL values of that configuration; a failure of the encoder is inconclusive."""
        from . import symjax as sj
        import jax
        self._reset_genjax()
        try:
            pre = jax.make_jaxpr(fn, return_shape=True)(*ex_args)
        except Exception as e:
            tb = traceback.format_exc(limit=6)
            self._rec(desc, "violation", detail=f"{type(e).__name__}: {str(e)[:300]}", replay_kind="raises",
                      tb=tb[-1500:])
            self._reset_genjax()
            return None
        finally:
            self._reset_genjax()
        try:
            return self.trace(fn, *ex_args, pretraced=pre, **kw)
        except sj.Unsupported as e:
            self._rec(desc, "inconclusive", detail=f"encoder: {e}")
        except Exception as e:
            self._rec(desc, "inconclusive", detail=f"encoder error: {type(e).__name__}: {str(e)[:200]} {traceback.format_exc(limit=4)[-400:]}")
        finally:
            self._reset_genjax()
        return None

    @staticmethod
    def _reset_genjax():
        try:
            from genjax import core
            core.handler_stack.clear()
        except Exception:
            pass

    def assume(self, *cs):
        self.assumptions.extend(cs)

    # ------------------------------------------------------------------ obligations
    def _rec(self, desc, verdict, **kw):
        r = Record(id=f"{self.prop}:{self.gid}:{desc}", desc=desc, verdict=verdict, **kw)
        self.records.append(r)
        return r

    def ok(self, desc, cond, detail=""):
        """structural (value-independent) obligation decided while tracing"""
        return self._rec(desc, "proved" if cond else "violation", detail=detail, time=0.0, structural=True,
                         replay_kind="structural")

    def eq(self, desc, lhs, rhs, assumptions=(), tol=None, timeout_ms=None, T=None, cases=()):
        """obligation: lhs == rhs (pytrees of object arrays) for all values satisfying the assumptions"""
        from . import solve
        goal = solve.eq_trees(lhs, rhs, tol)
        return self.holds(desc, goal, assumptions, timeout_ms=timeout_ms, pairs=(lhs, rhs), T=T, tol=tol, cases=cases)

    def holds(self, desc, goal, assumptions=(), timeout_ms=None, pairs=None, T=None, tol=None, cases=(), base=True):
        """base=False: prove the goal from `assumptions` alone (not the group's assumptions) -- a weaker hypothesis,
        hence a stronger statement; used where extra hypotheses only slow the solver down"""
        from . import solve
        import z3
        import itertools
        assum = (list(self.assumptions) if base else []) + list(assumptions)
        self._nontrivial.add(desc)
        cases = [c for c in cases if z3.is_expr(c) and not z3.is_true(c) and not z3.is_false(c)]
        if cases and self.replay is None:
            # case split on Boolean conditions (e.g. Cond branches): the conjunction of the cases is exhaustive
            worst = None
            for combo in itertools.product([True, False], repeat=len(cases)):
                extra = [c if b else z3.Not(c) for c, b in zip(cases, combo)]
                r = self.holds(desc + "", goal, list(assumptions) + extra, timeout_ms=timeout_ms, pairs=pairs, T=T, tol=tol, base=base)
                if r["verdict"] != "proved":
                    return r
                self.records.pop()
                worst = r if worst is None or r.get("time", 0) > worst.get("time", 0) else worst
            r = self._rec(desc, "proved", time=worst.get("time", 0), detail=f"case split over {len(cases)} condition(s)")
            return r
        if self.replay is not None:
            return self._replay_numeric(desc, goal, assum, pairs, tol)
        if z3.is_false(z3.simplify(goal)) and pairs is not None and not self._structure_ok(pairs):
            return self._rec(desc, "violation", detail="result structure differs from the reference structure",
                             replay_kind="structural", time=0.0)
        res = solve.prove(goal, assum, timeout_ms=timeout_ms)
        if res.verdict == "unsat":
            r = self._rec(desc, "proved", time=round(res.time, 4))
            if res.solver is not None and self.second < 2 and res.time > 0.0005:
                so = solve.second_opinion(res.solver, 30)
                self.second += 1
                r["second_opinion"] = so
                if so == "sat":
                    r["verdict"] = "error"
                    r["detail"] = "solvers disagree (z3 5.1 unsat, z3 4.8.12 sat)"
            return r
        if res.verdict == "sat":
            return self._confirm(desc, goal, assum, res, pairs, tol)
        return self._rec(desc, "inconclusive", time=round(res.time, 3), detail=f"solver: {res.verdict} {res.reason}")

    def rat_eq(self, desc, lhs, rhs, split=None, assumptions=(), timeout_ms=None, base=True, subst=(), paths=None):
        """obligation lhs == rhs between rational functions of the real variables, for ALL values of the integer
        index variables in `split` (dict var -> iterable of ints; exhaustive case split, the cases are substituted and
        simplified so that index `ite`s disappear) and all real values satisfying the assumptions."""
        from . import solve, symjax as sj
        import z3
        import itertools
        if self.replay is not None:
            return self.holds(desc, lhs == rhs, assumptions, timeout_ms=timeout_ms, base=base)
        self._nontrivial.add(desc)
        assum = (list(self.assumptions) if base else []) + list(assumptions)
        split = dict(split or {})
        vs = list(split)
        t_tot, n = 0.0, 0
        if isinstance(lhs, (list, tuple)):
            # several identities under one obligation
            worst = None
            for l_, r_ in zip(lhs, rhs):
                rec = self.rat_eq(desc, l_, r_, split, assumptions, timeout_ms, base, subst, paths)
                if rec["verdict"] != "proved":
                    return rec
                self.records.pop()
                t_tot += rec.get("time", 0)
                n += 1
            return self._rec(desc, "proved", time=round(t_tot, 4), detail=f"{n} identities, rational normal form + solver")
        for combo in itertools.product(*[list(split[v]) for v in vs]):
            sub = [(v, z3.IntVal(int(c))) for v, c in zip(vs, combo)]
            l, r = (z3.substitute(lhs, *sub), z3.substitute(rhs, *sub)) if sub else (lhs, rhs)
            A = [z3.simplify(z3.substitute(a, *sub)) for a in assum] if sub else assum
            if any(z3.is_false(a) for a in A):
                continue            # this index combination is excluded by the assumptions
            A = [a for a in A if not z3.is_true(a)]
            l, r = z3.simplify(l), z3.simplify(r)
            for path in (paths or [[]]):
                Ap = A + list(path)
                lp, rp = l, r
                if solve.has_ite(lp) or solve.has_ite(rp):
                    lp, rp = solve.resolve_ites(lp, Ap), solve.resolve_ites(rp, Ap)
                res = solve.prove_rat_eq(lp, rp, Ap, timeout_ms=timeout_ms, subst=subst)
                n += 1
                t_tot += res.time
                if res.verdict != "unsat":
                    # hand the failing case to the general path (replay / inconclusive reporting)
                    eqs = [v == c for v, c in zip(vs, combo)] + list(path)
                    return self.holds(desc, z3.Implies(z3.And(*eqs) if eqs else z3.BoolVal(True), lhs == rhs), assumptions,
                                      timeout_ms=timeout_ms, base=base)
        return self._rec(desc, "proved", time=round(t_tot, 4), detail=f"{n} index case(s), rational normal form + solver")

    def _structure_ok(self, pairs):
        import jax
        isleaf = lambda t: isinstance(t, np.ndarray)
        la, ta = jax.tree_util.tree_flatten(pairs[0], is_leaf=isleaf)
        lb, tb = jax.tree_util.tree_flatten(pairs[1], is_leaf=isleaf)
        return ta == tb

    # ------------------------------------------------------------------ replay of counterexamples
    def _all_terms(self, goal, assum):
        from . import symjax as sj
        ts = [goal] + list(assum)
        for T in self.traces:
            ts += sj.terms(T.flat_out) + sj.terms(T.flat_in)
            for s in T.sites:
                ts += sj.terms(s.outs)
        return ts

    def _confirm(self, desc, goal, assum, res, pairs, tol):
        """turn the model into concrete inputs/outcomes, re-run the REAL code (scripted outcomes) and
        re-evaluate the property numerically.  Only a reproduced violation is reported."""
        from . import concrete, symjax as sj
        try:
            env = concrete.model_env(res.model, self._all_terms(goal, assum))
            env = {k: v for k, v in env.items() if isinstance(v, (int, float, bool))}
            ok_real, detail_real = self.validate_traces(env)
            num_ok, detail = self._numeric_goal(goal, pairs, env, tol)
        except Exception as e:
            return self._rec(desc, "inconclusive", detail=f"sat but replay failed: {type(e).__name__}: {e}",
                             time=round(res.time, 3))
        if not ok_real:
            return self._rec(desc, "inconclusive", time=round(res.time, 3),
                             detail=f"sat, but the encoding does not match the real run at the model ({detail_real}): encoder problem")
        if getattr(self, "_last_validated", 0) == 0:
            return self._rec(desc, "inconclusive", time=round(res.time, 3),
                             detail="sat, but no trace of this group could be re-run on the real code at the model (key-typed inputs): not reported as a violation")
        if num_ok:
            env2, detail2 = self._numeric_search(goal, assum, pairs, env, tol)
            if env2 is None:
                return self._rec(desc, "inconclusive", time=round(res.time, 3),
                                 detail=f"sat model does not reproduce numerically ({detail}): artefact of an uninterpreted function")
            env, detail = env2, detail2 + " (witness found by numeric search after the solver's sat verdict)"
            ok_real, detail_real = self.validate_traces(env)
            if not ok_real:
                return self._rec(desc, "inconclusive", time=round(res.time, 3), detail=f"numeric witness but encoding mismatch: {detail_real}")
        path = self._write_replay(desc, env, detail)
        return self._rec(desc, "violation", time=round(res.time, 3), detail=detail, replay=path, replay_kind="model",
                         env={k: env[k] for k in list(env)[:40]})

    def _numeric_search(self, goal, assum, pairs, env0, tol, tries=300):
        """the solver said sat but its model relies on an arbitrary interpretation of Log/Exp/...: look for a
        witness under the TRUE meaning of those functions (needed to replay on the real code)"""
        from . import concrete
        import z3
        rng = np.random.default_rng(self.seed + 17)
        names = list(env0)
        for t in range(tries):
            env = {}
            for k in names:
                v = env0[k]
                if isinstance(v, bool):
                    env[k] = bool(rng.integers(0, 2))
                elif isinstance(v, int):
                    env[k] = int(rng.integers(0, 3))
                else:
                    env[k] = float(np.float32(rng.uniform(-2.0, 2.0) if rng.random() < 0.7 else rng.uniform(0.05, 0.95)))
            try:
                if not all(bool(concrete.numeval(a, env)) for a in assum):
                    continue
                ok, detail = self._numeric_goal(goal, pairs, env, tol)
            except Exception:
                continue
            if not ok:
                return env, detail
        return None, ""

    def _numeric_goal(self, goal, pairs, env, tol):
        from . import concrete, symjax as sj
        import jax
        import z3
        if pairs is not None:
            isleaf = lambda t: isinstance(t, np.ndarray)
            la = jax.tree_util.tree_leaves(pairs[0], is_leaf=isleaf)
            lb = jax.tree_util.tree_leaves(pairs[1], is_leaf=isleaf)
            worst, where = 0.0, None
            for i, (a, b) in enumerate(zip(la, lb)):
                if isinstance(a, str) or isinstance(b, str):
                    continue
                a, b = np.broadcast_arrays(sj.obj(a), sj.obj(b))
                va, vb = concrete.numeval_array(a, env), concrete.numeval_array(b, env)
                for idx in np.ndindex(va.shape):
                    x, y = va[idx], vb[idx]
                    if isinstance(x, bool) or isinstance(y, bool):
                        d = 0.0 if bool(x) == bool(y) else 1.0
                    else:
                        x, y = float(x), float(y)
                        if math.isnan(x) and math.isnan(y):
                            continue
                        if math.isnan(x) or math.isnan(y):
                            d = 1.0       # NaN on one side only
                        elif math.isinf(x) or math.isinf(y):
                            d = 0.0 if x == y else 1.0
                        else:
                            d = abs(x - y) / max(1.0, abs(x), abs(y))
                    if d > worst:
                        worst, where = d, (i, idx, x, y)
            ok = worst <= 1e-4
            return ok, (f"max rel diff {worst:.3g} at leaf {where[0]}{list(where[1])}: code={where[2]!r} reference={where[3]!r}"
                        if where else "all leaves equal")
        v = concrete.numeval(goal, env)
        return bool(v), f"goal evaluates to {v}"

    def _replay_numeric(self, desc, goal, assum, pairs, tol):
        if self.replay.get("ob") not in (None, desc):
            return None
        env = self.replay["env"]
        ok_real, detail_real = self.validate_traces(env)
        num_ok, detail = self._numeric_goal(goal, pairs, env, tol)
        return self._rec(desc, "proved" if num_ok else "violation", detail=detail + f"; real-run check: {detail_real}")

    def _write_replay(self, desc, env, detail):
        os.makedirs(os.path.join(ROOT, "replays"), exist_ok=True)
        h = hashlib.sha1(f"{self.prop}:{self.gid}:{desc}".encode()).hexdigest()[:10]
        path = os.path.join(ROOT, "replays", f"{self.prop}-{h}.json")
        with open(path, "w") as f:
            json.dump({"property": self.prop, "group": self.gid, "obligation": desc, "detail": detail,
                       "env": env, "tier": self.tier, "seed": self.seed,
                       "how": f"./vcheck replay {os.path.relpath(path, ROOT)}  (re-traces the real code, runs it with these inputs/outcomes, re-evaluates the property numerically)"},
                      f, indent=1, default=str)
        return os.path.relpath(path, ROOT)

    # ------------------------------------------------------------------ translator validation
    def validate_traces(self, env=None, rng=None):
        """evaluate every registered trace with the real primitive implementations (scripted outcomes)
        and compare with the numeric value of the encoding under the same assignment"""
        from . import concrete, symjax as sj
        import jax.numpy as jnp
        import z3
        worst = 0.0
        self._last_validated = 0
        for T in self.traces:
            if getattr(T, "no_validate", False):
                continue
            # extended-real traces are validated at moderate random values: a solver model may hold magnitudes that
            # overflow float32 in the real run (inf) while the exact value is finite
            e = {} if getattr(T, "validate_random_only", False) else dict(env or {})
            args = []
            for sym, v in zip(T.flat_in, T.closed.jaxpr.invars):
                a = np.empty(sym.shape, dtype=object)
                for idx in np.ndindex(sym.shape):
                    el = sym[idx]
                    if isinstance(el, sj.XV):
                        el = el.v            # extended-real inputs are finite variables
                    if isinstance(el, sj.LogV) or not (z3.is_const(el) and el.decl().kind() == z3.Z3_OP_UNINTERPRETED):
                        # log-domain / derived input: give its free variables values, then evaluate
                        for nm2, var in sj.free_vars([sj.unlog(el) if not isinstance(el, sj.LogV) else el.P]).items():
                            if nm2 not in e:
                                e[nm2] = float(np.float32((rng or np.random.default_rng(0)).uniform(0.25, 0.75))) if var.sort() == sj.RealS else _default_val("i" if z3.is_int(var) else "b", rng)
                        a[idx] = concrete.numeval(el, e)
                        continue
                    nm = str(el)
                    if nm not in e:
                        e[nm] = _default_val(sj.kind_of(v.aval.dtype), rng)
                    a[idx] = e[nm]
                args.append(jnp.asarray(np.array(a.tolist()), dtype=v.aval.dtype).reshape(v.aval.shape))
            outcomes = {}
            for s in T.sites:
                vals = []
                for o, v in zip(s.outs, s.eqn.outvars):
                    a = np.empty(o.shape, dtype=object)
                    for idx in np.ndindex(o.shape):
                        oel = o[idx]
                        nm = str(oel.v if isinstance(oel, sj.XV) else oel)
                        if nm not in e:
                            e[nm] = _default_val(sj.kind_of(v.aval.dtype), rng)
                        a[idx] = e[nm]
                    vals.append(np.array(a.tolist()))
                outcomes[s.sid] = vals
            script = concrete.Script(outcomes)
            real = concrete.run_scripted(script, T.closed.jaxpr, T.closed.consts, *args)
            for r, o in zip(real, T.flat_out):
                if sj.kind_of(r.dtype) == "k":
                    continue
                mine = concrete.numeval_array(o, e)
                r = np.asarray(r)
                for idx in np.ndindex(r.shape):
                    x, y = float(r[idx]), float(mine[idx])
                    if math.isnan(x) or math.isnan(y):
                        continue
                    if math.isinf(x) or math.isinf(y):
                        d = 0.0 if x == y else 1.0
                    else:
                        d = abs(x - y) / max(1.0, abs(x), abs(y))
                    worst = max(worst, d)
            self.validated += 1
            self._last_validated += 1
        return worst < 2e-3, f"max rel diff encoding vs real primitives {worst:.2g}"

    def finish_validation(self):
        """called once per group: validate all traces under an assignment satisfying the assumptions
        (this is also the reachability twin: the assumptions must be satisfiable)"""
        from . import solve, concrete
        if self.replay is not None:
            return
        env = {}
        if self.assumptions:
            r = solve.satisfiable(self.assumptions, timeout_ms=20000)
            if r.verdict == "unsat":
                self._rec("reachability-twin", "error", detail="assumptions are contradictory: vacuous harness")
                return
            if r.verdict == "sat":
                self.twins_ok += 1
                env = concrete.model_env(r.model, self._all_terms(self.assumptions[0], self.assumptions[1:]))
                env = {k: v for k, v in env.items() if isinstance(v, (int, float, bool))}
        try:
            ok, detail = self.validate_traces(env, rng=np.random.default_rng(self.seed))
        except Exception as e:
            self._rec("translator-validation", "error", detail=f"{type(e).__name__}: {e}")
            return
        if not ok:
            self._rec("translator-validation", "error", detail=detail)

    def fault_twin(self, desc, goal, assumptions=()):
        """seeded-fault twin: a deliberately perturbed specification must be refuted (sat)"""
        from . import solve
        if self.replay is not None:
            return
        res = solve.prove(goal, list(self.assumptions) + list(assumptions), timeout_ms=20000)
        if res.verdict == "sat":
            self.fault_twins_ok += 1
        elif res.verdict == "unsat":
            self._rec("fault-twin:" + desc, "error", detail="perturbed specification was proved: harness has no teeth here")

    def sample(self, **kw):
        if len(self.samples) < 3:
            self.samples.append({k: (v if isinstance(v, (int, float, str, bool, list, dict)) else str(v)) for k, v in kw.items()})


def _default_val(kind, rng):
    if rng is None:
        rng = np.random.default_rng(0)
    if kind == "b":
        return bool(rng.integers(0, 2))
    if kind in "iu":
        return int(rng.integers(0, 2))
    return float(np.float32(rng.uniform(0.25, 1.75)))


# --------------------------------------------------------------------------- worker entry
def run_group_worker(spec):
    """runs in a worker process. spec = (prop, module, gid, tier, seed, replay)"""
    prop, module, gid, tier, seed, replay = spec
    t0 = time.time()
    os.environ["VERIF_TIER"] = tier
    sys.path.insert(0, ROOT)
    from . import jaxcompat  # noqa: F401  (before genjax)
    from . import solve
    out = {"gid": gid, "records": [], "error": None}
    # a group that runs away is an error (exit 2, inconclusive), never a silent hang
    limit = int(os.environ.get("VERIF_GROUP_TIMEOUT", "5400" if tier == "thorough" else "2400"))
    try:
        import signal

        def _alarm(signum, frame):
            raise TimeoutError(f"group exceeded VERIF_GROUP_TIMEOUT={limit}s")
        signal.signal(signal.SIGALRM, _alarm)
        signal.alarm(limit)
    except Exception:
        pass
    try:
        mod = importlib.import_module(module)
        g = Group(prop, gid, tier, seed, replay)
        mod.run_group(g, gid)
        g.finish_validation()
        out["records"] = [dict(r) for r in g.records if r is not None]
        out.update(validated=g.validated, twins=g.twins_ok, fault_twins=g.fault_twins_ok,
                   functions=sorted(g.functions), programs=sorted(g.programs), samples=g.samples,
                   prims=sorted(g.prims), n_traces=len(g.traces),
                   eqns=sum(T.n_eqns for T in g.traces), nontrivial=len(g._nontrivial))
    except BaseException as e:  # noqa
        out["error"] = f"{type(e).__name__}: {e}\n{traceback.format_exc(limit=8)}"
    st = solve.STATS
    out["stats"] = dict(queries=st.queries, unsat=st.unsat, sat=st.sat, unknown=st.unknown, time=st.time,
                        second=st.second_opinions, normal_form=st.normal_form)
    out["wall"] = time.time() - t0
    return out


# --------------------------------------------------------------------------- main runner
def load_known():
    p = os.path.join(ROOT, "known_findings.json")
    if not os.path.exists(p):
        return []
    return json.load(open(p)).get("findings", [])


def match_known(known, prop, rec):
    for k in known:
        if k.get("status") == "fixed":
            continue
        if k["property"] != prop:
            continue
        if re.search(k["match"], rec["id"]):
            return k
    return None


def run_property(prop, module, tier, seed, level="model_checking", bounds=None, assumptions=None,
                 functions=None, explanation="", only=None, jobs=None):
    t0 = time.time()
    sys.path.insert(0, ROOT)
    mod_spec = importlib.util.find_spec(module)
    # group listing needs the module; import it here (cheap parts only)
    from . import jaxcompat  # noqa
    mod = importlib.import_module(module)
    gids = mod.groups(tier, seed)
    if only:
        gids = [g for g in gids if any(o in g for o in only)]
    results = run_pool([(prop, module, g, tier, seed, None) for g in gids], jobs)
    return summarize(prop, tier, seed, results, level, bounds or getattr(mod, "BOUNDS", {}),
                     assumptions or getattr(mod, "ASSUMPTIONS", []), functions or getattr(mod, "FUNCTIONS", []),
                     explanation or getattr(mod, "EXPLANATION", ""), t0)


def run_pool(specs, jobs=None):
    import concurrent.futures as cf
    import multiprocessing as mp
    jobs = jobs or min(16, max(1, len(specs)), os.cpu_count() or 4)
    if len(specs) == 0:
        return []
    if jobs == 1 or os.environ.get("VERIF_SERIAL"):
        return [run_group_worker(s) for s in specs]
    ctx = mp.get_context("spawn")
    results = []
    with cf.ProcessPoolExecutor(max_workers=jobs, mp_context=ctx) as ex:
        futs = {ex.submit(run_group_worker, s): s for s in specs}
        for f in cf.as_completed(futs):
            s = futs[f]
            try:
                results.append(f.result())
            except Exception as e:
                results.append({"gid": s[2], "records": [], "error": f"worker died: {e}", "stats": {}, "wall": 0})
    results.sort(key=lambda r: r["gid"])
    return results


def summarize(prop, tier, seed, results, level, bounds, assumptions, functions, explanation, t0):
    known = load_known()
    recs, errors = [], []
    agg = dict(queries=0, unsat=0, sat=0, unknown=0, time=0.0, second=0, normal_form=0)
    validated = twins = ftwins = eqns = ntr = nontrivial = 0
    fns, progs, samples, prims = set(functions), set(), [], set()
    for r in results:
        if r.get("error"):
            errors.append((r["gid"], r["error"]))
        recs += r.get("records", [])
        for k in agg:
            agg[k] += r.get("stats", {}).get(k, 0)
        validated += r.get("validated", 0)
        twins += r.get("twins", 0)
        ftwins += r.get("fault_twins", 0)
        eqns += r.get("eqns", 0)
        ntr += r.get("n_traces", 0)
        nontrivial += r.get("nontrivial", 0)
        fns |= set(r.get("functions", []))
        progs |= set(r.get("programs", []))
        prims |= set(r.get("prims", []))
        for s in r.get("samples", []):
            if len(samples) < 6:
                samples.append(s)
    viol = [r for r in recs if r["verdict"] == "violation"]
    inconc = [r for r in recs if r["verdict"] in ("inconclusive", "error")]
    proved = [r for r in recs if r["verdict"] == "proved"]
    new_viol, known_hits = [], []
    for r in viol:
        k = match_known(known, prop, r)
        (known_hits if k else new_viol).append((r, k))
    lines = []
    seen_known = set()
    for r, k in known_hits:
        if k["match"] not in seen_known:
            seen_known.add(k["match"])
            lines.append(f"KNOWN-FINDING: property={prop} {k['what']}")
    for r, _ in new_viol:
        replay = r.get("replay") or _write_struct_replay(prop, r)
        lines.append(f"VIOLATION property={prop} replay={replay}")
        lines.append(f"  obligation: {r['id']}\n  detail: {r.get('detail', '')[:400]}")
    for gid, e in errors:
        lines.append(f"HARNESS-ERROR group={gid}: {e[:600]}")
    for r in inconc[:40]:
        lines.append(f"INCONCLUSIVE {r['id']}: {r.get('detail', '')[:300]}")
    for r in proved[:3]:
        samples.append({"obligation": r["id"], "verdict": "unsat (holds within bounds)", "solver_time_s": r.get("time", 0)})
    for r, _ in (known_hits + new_viol)[:3]:
        samples.append({"obligation": r["id"], "verdict": "violation", "detail": r.get("detail", "")[:300]})
    wall = time.time() - t0
    ev = {
        "property_id": prop, "tier": tier, "seed": int(seed), "level": level,
        "coverage": {
            "evaluations": agg["queries"] + sum(1 for r in recs if r.get("structural") or "CrossHair" in str(r.get("detail", ""))),
            "distinct_nontrivial": nontrivial,
            "rule": "one evaluation = one solver query (or one value-independent structural obligation decided while tracing); "
                    "distinct_nontrivial = distinct (group, obligation) pairs whose goal went to the solver or to the structural decision "
                    "(one group = one program x operation x configuration; its encoding is regenerated from /repo on this run)",
            "samples": samples or [{"note": "no obligations"}],
            "obligations": len(recs), "discharged": len(proved),
            "violations_known": len(known_hits), "violations_new": len(new_viol), "inconclusive": len(inconc),
            "groups": len(results), "programs": len(progs) or len(results),
            "traces_validated_against_impl": validated, "traces": ntr, "ir_equations_encoded": eqns,
            "reachability_twins": twins, "seeded_fault_twins": ftwins,
            "solver_queries": agg["queries"], "solver_unsat": agg["unsat"], "solver_sat": agg["sat"],
            "solver_unknown": agg["unknown"], "solver_time_s": round(agg["time"], 3),
            "second_opinions": agg["second"],
            "decided_by_ring_normal_form": agg["normal_form"],
            "decided_by_smt_solver": agg["queries"] - agg["normal_form"],
            "functions_encoded": sorted(fns), "primitives_encoded": sorted(prims),
            "bounds": bounds, "trusted_base": TRUSTED_BASE,
            "explanation": explanation,
            "exhaustive": False,
        },
        "assumptions": list(assumptions) + [
            "finite, non-NaN inputs; float rounding and int32 wrap-around are outside the claim",
            "every claim is bounded by the configurations listed in coverage.bounds; values inside a configuration are universally quantified by the solver"],
        "wall_s": round(wall, 2),
        "violations": len(new_viol),
    }
    if not os.environ.get("VERIF_NO_EVIDENCE"):
        os.makedirs(os.path.join(ROOT, "evidence"), exist_ok=True)
        with open(os.path.join(ROOT, "evidence", f"{prop}.json"), "w") as f:
            json.dump(ev, f, indent=1, default=str)
    for l in lines:
        print(l)
    print(f"[{prop}] tier={tier} groups={len(results)} obligations={len(recs)} proved={len(proved)} "
          f"known={len(known_hits)} new_violations={len(new_viol)} inconclusive={len(inconc)} errors={len(errors)} "
          f"queries={agg['queries']} solver_time={agg['time']:.1f}s wall={wall:.1f}s")
    if new_viol:
        return 1
    if errors or inconc:
        return 2
    return 0


def _write_struct_replay(prop, r):
    os.makedirs(os.path.join(ROOT, "replays"), exist_ok=True)
    h = hashlib.sha1(r["id"].encode()).hexdigest()[:10]
    path = os.path.join(ROOT, "replays", f"{prop}-{h}.json")
    with open(path, "w") as f:
        json.dump({"property": prop, "obligation": r["id"], "group": r["id"].split(":")[1], "detail": r.get("detail"),
                   "tb": r.get("tb"), "kind": r.get("replay_kind", "structural"),
                   "how": f"./vcheck replay {os.path.relpath(path, ROOT)}"}, f, indent=1, default=str)
    return os.path.relpath(path, ROOT)
