import sys; sys.path.insert(0,'/tmp/vshim'); import jaxshim_plugin
import jax, jax.numpy as jnp, jax.random as jrand, collections, traceback
from genjax import gen, normal, flip, seed, Scan, Cond, const, sel, modular_vmap, categorical, exponential, multivariate_normal, uniform
from genjax.adev import *
from genjax.adev import Dual
from genjax.inference.vi import elbo_factory, optimize_vi, mean_field_normal_family, full_covariance_normal_family, elbo_vi
from genjax.inference.mcmc import mh, mala, hmc, chain
from genjax.extras.state_space import *
from genjax.state import state, save, namespace
ALL = collections.Counter()
def prims(j, acc):
    for e in j.eqns:
        acc[e.primitive.name.replace('\x1b','')] += 1
        for v in e.params.values():
            if hasattr(v, 'eqns'): prims(v, acc)
            if isinstance(v, (tuple, list)):
                for b in v:
                    if hasattr(b, 'eqns'): prims(b, acc)
    return acc
def T(name, f, *args):
    try:
        cj = jax.make_jaxpr(f)(*args)
        c = prims(cj.jaxpr, collections.Counter()); ALL.update(c)
        print("OK  ", name, sum(c.values()))
    except Exception as e:
        print("FAIL", name, type(e).__name__, str(e)[:150].replace("\n", " "))
    import genjax.core as gc; gc.handler_stack.clear()
# ADEV
@expectation
def e1(th):
    b = flip_enum_parallel(th); x = normal_reinforce(th, 1.0); k = categorical_enum_parallel(jnp.array([0.1, 0.2, th]))
    return jnp.where(b, x, 1.0) * k
T("adev enum_parallel+reinforce jvp", lambda th: e1.jvp_estimate(Dual(th, 1.0)).tangent, 0.3)
T("adev grad_estimate", lambda th: e1.grad_estimate(th), 0.3)
@expectation
def e2(th):
    x = multivariate_normal_reparam(th, jnp.eye(2)); y = uniform_reparam(0.0, th[0]); b = flip_mvd(0.3)
    return jnp.sum(x) * y + b
T("adev mvn_reparam+uniform+mvd", lambda th: e2.grad_estimate(th), jnp.array([0.3, 0.4]))
@expectation
def e3(ps):
    b = modular_vmap(lambda p: flip_enum(p))(ps)
    return jnp.sum(jnp.where(b, 1.0, 2.0))
T("adev batched flip_enum (RB)", lambda ps: e3.grad_estimate(ps), jnp.array([0.3, 0.4]))
T("adev estimate array arg", lambda ps: e3.estimate(ps), jnp.array([0.3, 0.4]))
@expectation
def d1(x):
    return jnp.sum(jnp.sin(x) @ x.T) + x[0, 1]
T("adev deterministic matrix jvp", lambda x: d1.jvp_estimate(Dual(x, jnp.ones((2, 2)))).tangent, jnp.ones((2, 2)))
T("adev deterministic matrix estimate", lambda x: d1.estimate(x), jnp.ones((2, 2)))
# VI
@gen
def target():
    z = normal(0.0, 1.0) @ "z"
    x = normal(z, 0.5) @ "x"
@gen
def qfam(constraint, phi):
    normal_reparam(phi[0], jnp.exp(phi[1])) @ "z"
el = elbo_factory(target, qfam, {"x": 1.0})
T("elbo estimate", lambda p: el.estimate(p), jnp.array([0.1, 0.2]))
T("elbo grad", lambda p: el.grad_estimate(p), jnp.array([0.1, 0.2]))
T("optimize_vi", lambda p: optimize_vi(el, p, 0.1, 2).param_history, jnp.array([0.1, 0.2]))
@gen
def target2():
    z = multivariate_normal(jnp.zeros(2), jnp.eye(2)) @ "x"
    y = normal(z[0] + z[1], 0.5) @ "y"
T("elbo_vi mean-field", lambda p: elbo_vi(target2, mean_field_normal_family(2), p, {"y": 1.0}, n_iterations=2).final_params, jnp.zeros(4))
# MCMC kernels
@gen
def mm(mu):
    x = normal(mu, 1.0) @ "x"
    v = normal.vmap(in_axes=(0, None))(jnp.stack([x, x]), 1.0) @ "v"
    y = normal(jnp.sum(v), 0.5) @ "y"
tr0, _ = mm.generate({"x": 0.2, "v": jnp.array([0.1, 0.3]), "y": 1.0}, 0.0)
T("hmc vec", lambda t: hmc(t, sel("v") | sel("x"), 0.25, 2).get_choices(), tr0)
T("mala vec", lambda t: mala(t, sel("v"), 0.25).get_choices(), tr0)
T("mh", lambda t: mh(t, sel("v")).get_choices(), tr0)
T("chain multi", lambda t: chain(lambda q: mh(q, sel("x")))(t, const(3), n_chains=const(2)).accepts, tr0)
# state space
T("kalman_smoother d=(2,1)", kalman_smoother, jnp.zeros((2, 1)), jnp.zeros(2), jnp.eye(2), jnp.eye(2), jnp.eye(2), jnp.ones((1, 2)), jnp.eye(1))
T("backward_sample", lambda a, tm: backward_sample(a, tm), jnp.zeros((3, 2)), jnp.ones((2, 2)) / 2)
T("discrete_hmm.assess", lambda: discrete_hmm.assess({"state": jnp.array(1), "obs": jnp.array(0)}, jnp.array(0), jnp.array(1), jnp.ones(2)/2, jnp.ones((2,2))/2, jnp.ones((2,2))/2)[0])
T("linear_gaussian.assess", lambda: linear_gaussian.assess({"state": jnp.zeros(2), "obs": jnp.zeros(1)}, jnp.zeros(2), jnp.array(1), jnp.zeros(2), jnp.eye(2), jnp.eye(2), jnp.eye(2), jnp.ones((1,2)), jnp.eye(1))[0])
# distributions logpdf
import genjax.distributions as D
for name, args, v in [("beta",(2.0,3.0),0.3),("gamma",(2.0,3.0),0.3),("poisson",(2.0,),3.0),("binomial",(3.0,0.3),1.0),("dirichlet",(jnp.ones(3),),jnp.ones(3)/3),("student_t",(3.0,0.0,1.0),0.3),("geometric",(0.3,),2.0),("negative_binomial",(3.0,0.3),2.0),("zipf",(2.0,),2),("multinomial",(3.0,jnp.zeros(3)),jnp.array([1.,1.,1.])),("cauchy",(0.,1.),0.3),("weibull",(1.5,1.0),0.3),("laplace",(0.,1.),.3),("half_normal",(1.,),.3),("inverse_gamma",(2.,3.),.3),("chi2",(3.,),.3),("log_normal",(0.,1.),.3),("categorical",(jnp.zeros(3),),1),("bernoulli",(0.3,),1)]:
    d = getattr(D, name)
    T("logpdf "+name, lambda v, *a: d.logpdf(v, *a), v, *args)
print(sorted(ALL))
