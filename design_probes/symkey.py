from symjax import *
import symjax
Key = z3.Datatype('Key')
Key.declare('Root', ('rid', z3.IntSort()))
Key.declare('Split', ('sp', Key), ('si', z3.IntSort()))
Key.declare('Fold', ('fp', Key), ('fd', z3.IntSort()))
Key.declare('Seeded', ('sd', z3.IntSort()))
Key = Key.create()
Bits = z3.Function('Bits', Key, z3.IntSort(), z3.IntSort())
R = symjax.RULES
CONSUMED = []   # (kind, key term)
def r_split(ctx, eqn, k):
    k = np.asarray(k, dtype=object); shape = eqn.params['shape']
    out = np.empty(k.shape + tuple(shape), dtype=object)
    for b in np.ndindex(k.shape):
        CONSUMED.append(('split', k[b]))
        for j, idx in enumerate(np.ndindex(tuple(shape))):
            out[b + idx] = Key.Split(k[b], z3.IntVal(j))
    return out
R['random_split'] = r_split
def toint(x):
    if is_z3(x): return x
    return z3.IntVal(int(x))
R['random_fold_in'] = ew(lambda k, d: (CONSUMED.append(('fold', k)), Key.Fold(k, toint(d)))[1])
def r_bits(ctx, eqn, k):
    k = np.asarray(k, dtype=object); shape = tuple(eqn.params['shape'])
    out = np.empty(k.shape + shape, dtype=object)
    for b in np.ndindex(k.shape):
        CONSUMED.append(('bits', k[b]))
        for j, idx in enumerate(np.ndindex(shape)):
            out[b + idx] = Bits(k[b], z3.IntVal(j))
    return out
R['random_bits'] = r_bits
R['random_seed'] = ew(lambda s: Key.Seeded(toint(s)))
R['random_wrap'] = lambda ctx, eqn, a: a
R['random_unwrap'] = lambda ctx, eqn, a: a
def uf(name, nin, out=RealS, ins=None):
    cache = {}
    def rule(ctx, eqn, *args):
        pkey = (name, str(sorted((k, str(v)) for k, v in eqn.params.items())))
        def f(*xs):
            xs = [x if is_z3(x) else (z3.RealVal(x) if isinstance(x, float) else z3.IntVal(int(x))) for x in xs]
            sig = tuple(x.sort() for x in xs)
            fn = cache.setdefault((pkey, sig), z3.Function(f"{name}_{len(cache)}", *sig, out))
            return fn(*xs)
        return ew(f)(ctx, eqn, *args)
    return rule
R['shift_right_logical'] = uf('shr', 2, z3.IntSort())
R['or'] = uf('bor', 2, z3.IntSort())
R['bitcast_convert_type'] = uf('bitcast', 1)
R['erf_inv'] = uf('erfinv', 1)
