import time, itertools
from symkey import *
import jax.random as jrand
from genjax import gen, normal, flip, seed, Scan, Cond, const, sel, modular_vmap
@gen
def step(c, x):
    z = normal(c + x, 1.0) @ "z"
    w = normal(z, 1.0) @ "w"
    return z, w
sc = Scan(step, length=const(3))
@gen
def m(mu):
    a = normal(mu, 1.0) @ "a"
    r = sc(a, jnp.arange(3.)) @ "s"
    b = normal.vmap(in_axes=(0, None))(r[1], 1.0) @ "b"
    return b
def f(key, mu):
    tr = seed(m.simulate)(key, mu)
    return tr.get_choices()
cj = jax.make_jaxpr(f)(jrand.key(0), 0.5)
ctx = Ctx()
root = np.array(Key.Root(z3.IntVal(0)), dtype=object)
mu = np.array(z3.Real("mu"), dtype=object)
t0 = time.time()
outs = eval_jaxpr(ctx, cj.jaxpr, cj.consts, root, mu)
print("encoded in", round(time.time() - t0, 2), "consumptions:", len(CONSUMED))
bits = [k for kind, k in CONSUMED if kind == 'bits']
print("bits keys:"); [print("  ", k) for k in bits]
s = z3.Solver()
s.add(z3.Or(*[a == b for a, b in itertools.combinations(bits, 2)]))
print("some pair of consumed keys equal?:", s.check())
# no consumed key also split/folded
oth = [k for kind, k in CONSUMED if kind != 'bits']
s = z3.Solver(); s.add(z3.Or(*[a == b for a in bits for b in oth])); print("consumed key also split/folded?:", s.check())
