"""log-domain mode prototype: override rules so that Log-terms are kept in the normal form Log(P)."""
from symjax import *
import symjax

def is_log(t):
    return is_z3(t) and z3.is_app(t) and t.decl().name() == "Log" and t.num_args() == 1
def is_exp(t):
    return is_z3(t) and z3.is_app(t) and t.decl().name() == "Exp" and t.num_args() == 1
def P(t): return t.arg(0)
def isnum0(x):
    if is_z3(x):
        return z3.is_rational_value(x) and x.numerator_as_long() == 0
    return x == 0
NEG_INF = "NEG_INF"

def l_add(a, b):
    if a is NEG_INF or b is NEG_INF: return NEG_INF
    if is_log(a) and is_log(b): return Log(P(a) * P(b))
    return a + b
def l_sub(a, b):
    if is_log(a) and is_log(b): return Log(P(a) / P(b))
    return a - b
def l_neg(a):
    if is_log(a): return Log(1 / P(a))
    return -a
def l_exp(a):
    if a is NEG_INF: return z3.RealVal(0)
    if is_log(a): return P(a)
    return Exp(a) if is_z3(a) else Exp(z3.RealVal(a))
def l_log(a):
    if is_exp(a): return a.arg(0)
    return Log(a) if is_z3(a) else Log(z3.RealVal(a))
def l_max(a, b):
    if a is NEG_INF: return b
    if b is NEG_INF: return a
    if is_log(a) and is_log(b): return Log(z3.If(P(a) >= P(b), P(a), P(b)))
    return _ite(a >= b, a, b)
def cmp(op):
    def f(a, b):
        if is_log(a) and is_log(b): a, b = P(a), P(b)
        return op(a, b)
    return f
def l_select(p, f, t):
    if is_log(f) and is_log(t) and is_z3(p): return Log(z3.If(p, P(t), P(f)))
    return symjax._ite(p, t, f)
from symjax import _ite
import operator
R = symjax.RULES
R['add'] = ew(l_add); R['sub'] = ew(l_sub); R['neg'] = ew(l_neg); R['exp'] = ew(l_exp); R['log'] = ew(l_log)
R['max'] = ew(l_max)
for n, op in [('lt', operator.lt), ('le', operator.le), ('gt', operator.gt), ('ge', operator.ge), ('eq', operator.eq), ('ne', operator.ne)]:
    R[n] = ew(cmp(op))
R['select_n'] = lambda ctx, eqn, c, *cases: ew(l_select)(ctx, eqn, c, cases[0], cases[1])
def r_reduce_max(ctx, eqn, a):
    a = np.asarray(a, dtype=object); axes = tuple(eqn.params['axes'])
    a2 = np.moveaxis(a, axes, tuple(range(len(axes))))
    flat = a2.reshape((-1,) + a2.shape[len(axes):])
    out = flat[0]
    for k in range(1, flat.shape[0]):
        out = ew(l_max)(ctx, eqn, out, flat[k])
    return np.asarray(out, dtype=object)
R['reduce_max'] = r_reduce_max
def r_reduce_sum(ctx, eqn, a):
    a = np.asarray(a, dtype=object); axes = tuple(eqn.params['axes'])
    if not axes: return a
    a2 = np.moveaxis(a, axes, tuple(range(len(axes))))
    flat = a2.reshape((-1,) + a2.shape[len(axes):])
    out = flat[0]
    for k in range(1, flat.shape[0]):
        out = ew(l_add)(ctx, eqn, out, flat[k])
    return np.asarray(out, dtype=object)
R['reduce_sum'] = r_reduce_sum
R['sign'] = ew(lambda a: _ite(a > 0, 1, _ite(a < 0, -1, 0)))
def lit_fix(x):
    return x
# literals: -inf
_old_arr = symjax.arr
def arr2(x, aval=None):
    a = np.asarray(x)
    if a.dtype != object and a.dtype.kind == 'f' and (np.any(np.isinf(a)) or np.any(np.isnan(a))):
        out = np.empty(a.shape, dtype=object)
        for idx in np.ndindex(a.shape):
            v = a[idx]
            out[idx] = NEG_INF if (np.isinf(v) and v < 0) else (z3.FreshReal('nan') if np.isnan(v) else lift(v.item()))
        return out
    return _old_arr(x)
symjax.arr = arr2

def r_cumsum(ctx, eqn, a):
    a = np.asarray(a, dtype=object); ax = eqn.params['axis']
    out = a.copy()
    idx = [slice(None)] * a.ndim
    for k in range(1, a.shape[ax]):
        i0 = list(idx); i0[ax] = k; i1 = list(idx); i1[ax] = k - 1
        out[tuple(i0)] = out[tuple(i1)] + a[tuple(i0)]
    return out
R['cumsum'] = r_cumsum

def r_gather_simple(ctx, eqn, operand, indices):
    """only the 1-D take pattern: operand (n, ...), indices (..., 1) -> operand[idx]"""
    operand = np.asarray(operand, dtype=object); indices = np.asarray(indices, dtype=object)
    dn = eqn.params['dimension_numbers']; ss = eqn.params['slice_sizes']
    assert tuple(dn.start_index_map) == (0,), dn
    n = operand.shape[0]
    batch_shape = indices.shape[:-1]
    out_aval = eqn.outvars[0].aval
    res = np.empty(batch_shape + operand.shape[1:], dtype=object)
    for b in np.ndindex(batch_shape):
        i = indices[b + (0,)]
        for rest in np.ndindex(operand.shape[1:]):
            if not is_z3(i):
                v = operand[(min(max(int(i), 0), n - 1),) + rest]
            else:
                v = operand[(n - 1,) + rest]
                for k in range(n - 2, -1, -1):
                    v = _ite(i <= k, operand[(k,) + rest], v) if k == 0 else _ite(i == k, operand[(k,) + rest], v)
            res[b + rest] = v
    return res.reshape(out_aval.shape)
R['gather'] = r_gather_simple
R['le_to'] = ew(cmp(operator.le))
R['lt_to'] = ew(cmp(operator.lt))

def r_div(ctx, eqn, a, b):
    kind = np.dtype(eqn.outvars[0].aval.dtype).kind
    if kind in 'iu':
        def f(x, y):
            if not is_z3(x) and not is_z3(y):
                return int(x) // int(y)
            x = x if is_z3(x) else z3.IntVal(int(x)); y = y if is_z3(y) else z3.IntVal(int(y))
            return x / y   # z3 Int division (floor for positive divisor)
        return ew(f)(ctx, eqn, a, b)
    return ew(lambda x, y: x / y)(ctx, eqn, a, b)
R['div'] = r_div
