import z3, time
z,x,m0,s0,s,mn,sn,st = z3.Reals("z x m0 s0 s mn sn st")
side = [s0>0, s>0, sn>0, st>0, st*st == s0*s0+s*s, sn*st == s0*s, mn*(s0*s0+s*s) == m0*s*s + x*s0*s0]
def q(v,m,sd): return -((v-m)/sd)*((v-m)/sd)/2
lhs = q(z,m0,s0) + q(x,z,s) - q(z,mn,sn)
rhs = q(x,m0,st)
sol = z3.Solver(); sol.set("timeout", 120000); sol.add(*side); sol.add(lhs != rhs)
t=time.time(); print("quadratic part:", sol.check(), round(time.time()-t,2))
sol = z3.Solver(); sol.add(*side); sol.add(sn/(s0*s) != 1/st)
t=time.time(); print("normaliser part:", sol.check(), round(time.time()-t,2))
