import sys
for _h in sys.path_hooks:
    if not hasattr(_h, "__qualname__"):
        try: _h.__qualname__ = type(_h).__name__
        except Exception: pass
sys.path.insert(0,'/tmp/vshim'); import jaxshim_plugin
from typing import Dict, Union
from genjax.core import sel, Selection, gen, Fn, const
_G = Fn(source=const(lambda: None))

def selected(s, path):
    cur = s
    for a in path:
        hit, cur = cur.match(a)
        if not hit:
            return False
    hit, _ = cur.match(())
    return hit

def leaves(x, prefix=()):
    out = {}
    for k, v in x.items():
        if isinstance(v, dict):
            out.update(leaves(v, prefix + (k,)))
        else:
            out[prefix + (k,)] = v
    return out

def filter_partition(x: Dict[str, Union[int, Dict[str, int]]], n1: str, n2: str) -> bool:
    """
    pre: len(x) <= 2 and all(len(k) <= 1 for k in x) and len(n1) <= 1 and len(n2) <= 1
    pre: all((not isinstance(v, dict)) or (1 <= len(v) <= 2 and all(len(k) <= 1 for k in v)) for v in x.values())
    post: _
    """
    s = sel(n1) | sel((n2, n1))
    a, b = _G.filter(x, s)
    la = leaves(a) if a else {}
    lb = leaves(b) if b else {}
    lx = leaves(x)
    if set(la) & set(lb):
        return False
    if {**la, **lb} != lx:
        return False
    for p in lx:
        if (p in la) != selected(s, p):
            return False
    if a and b:
        m, d = _G.merge(a, b)
        if m != x or d is not None:
            return False
    return True
