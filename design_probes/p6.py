import time
from symjax import *
from genjax.adev import expectation, flip_enum, flip_mvd, normal_reparam, flip_reinforce, Dual, normal_reinforce
@expectation
def f(theta):
    b = flip_enum(theta)
    x = normal_reparam(theta, 1.0)
    return jax.lax.cond(b, lambda: x * x, lambda: theta * 3.0)
def run(theta, t):
    d = f.jvp_estimate(Dual(theta, t))
    return d.primal, d.tangent
cj = jax.make_jaxpr(run)(0.3, 1.0)
print(str(cj).replace('\x1b','')[:2500])
ctx, sin, (p, t), _ = sym_trace(run, 0.3, 1.0)
print("sites", [(s['name'], s['args'], s['outs']) for s in ctx.sites])
print("primal", z3.simplify(p.item()))
print("tangent", z3.simplify(t.item()))
@expectation
def g(theta):
    b = flip_reinforce(theta)
    return jnp.where(b, 2.0, theta * theta)
def run2(theta, t):
    d = g.jvp_estimate(Dual(theta, t))
    return d.primal, d.tangent
ctx, sin, (p, t), _ = sym_trace(run2, 0.3, 1.0)
print("sites", [(s['name'], s['args'], s['outs']) for s in ctx.sites])
print("tangent", z3.simplify(t.item()))
