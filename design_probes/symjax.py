"""Prototype: symbolic evaluation of a jaxpr into z3 terms (numpy object arrays)."""
import sys; sys.path.insert(0, '/tmp/vshim'); import jaxshim_plugin  # noqa
import itertools, math
import numpy as np
import jax, jax.numpy as jnp
import z3
from jax.extend.core import Literal
from genjax.pjax import PPPrimitive, sample_p, log_density_p, adev_sample_p

RealS = z3.RealSort()
Log = z3.Function("Log", RealS, RealS)
Exp = z3.Function("Exp", RealS, RealS)


def is_z3(x):
    return isinstance(x, z3.ExprRef)


def lift(x, dtype=None):
    """python/numpy scalar -> z3-compatible python value"""
    if is_z3(x):
        return x
    if isinstance(x, (bool, np.bool_)):
        return bool(x)
    if isinstance(x, (int, np.integer)):
        return int(x)
    if isinstance(x, (float, np.floating)):
        from fractions import Fraction
        f = float(x)
        if math.isinf(f) or math.isnan(f):
            raise ValueError("non-finite constant")
        fr = Fraction(f).limit_denominator(10**9)
        return z3.RealVal(str(fr)) if fr.denominator != 1 else z3.RealVal(fr.numerator)
    raise TypeError(type(x))


def arr(x, aval=None):
    a = np.asarray(x)
    if a.dtype != object:
        out = np.empty(a.shape, dtype=object)
        for idx in np.ndindex(a.shape):
            out[idx] = lift(a[idx].item())
        if a.shape == ():
            out = np.array(lift(a.item()), dtype=object)
        return out
    return a


class Ctx:
    def __init__(self):
        self.fresh = itertools.count()
        self.sites = []  # sample sites
        self.assumptions = []

    def fresh_like(self, aval, prefix):
        shape = aval.shape
        out = np.empty(shape, dtype=object)
        kind = np.dtype(aval.dtype).kind
        for idx in np.ndindex(shape):
            n = f"{prefix}{next(self.fresh)}"
            if kind == 'b':
                out[idx] = z3.Bool(n)
            elif kind in 'iu':
                out[idx] = z3.Int(n)
            else:
                out[idx] = z3.Real(n)
        return out


def ew(f):
    def rule(ctx, eqn, *args):
        args = np.broadcast_arrays(*[np.asarray(a, dtype=object) for a in args])
        out = np.empty(args[0].shape, dtype=object)
        for idx in np.ndindex(out.shape):
            out[idx] = f(*[a[idx] for a in args])
        return out
    return rule


def _ite(c, a, b):
    if isinstance(c, bool):
        return a if c else b
    return z3.If(c, a, b)


def tof(x):
    # int/bool -> real
    if isinstance(x, bool):
        return 1 if x else 0
    if is_z3(x):
        if z3.is_bool(x):
            return z3.If(x, z3.RealVal(1), z3.RealVal(0))
        if z3.is_int(x):
            return z3.ToReal(x)
    return x


RULES = {}
RULES['add'] = ew(lambda a, b: a + b)
RULES['sub'] = ew(lambda a, b: a - b)
RULES['mul'] = ew(lambda a, b: a * b)
RULES['div'] = ew(lambda a, b: a / b)
RULES['neg'] = ew(lambda a: -a)
RULES['log'] = ew(lambda a: Log(a) if is_z3(a) else Log(z3.RealVal(a)))
RULES['exp'] = ew(lambda a: Exp(a) if is_z3(a) else Exp(z3.RealVal(a)))
RULES['gt'] = ew(lambda a, b: a > b)
RULES['lt'] = ew(lambda a, b: a < b)
RULES['ge'] = ew(lambda a, b: a >= b)
RULES['le'] = ew(lambda a, b: a <= b)
RULES['eq'] = ew(lambda a, b: a == b)
RULES['ne'] = ew(lambda a, b: a != b)
RULES['and'] = ew(lambda a, b: z3.And(a, b) if (is_z3(a) or is_z3(b)) else (a and b))
RULES['or'] = ew(lambda a, b: z3.Or(a, b) if (is_z3(a) or is_z3(b)) else (a or b))
RULES['not'] = ew(lambda a: z3.Not(a) if is_z3(a) else (not a))
RULES['max'] = ew(lambda a, b: _ite(a >= b, a, b))
RULES['min'] = ew(lambda a, b: _ite(a <= b, a, b))
RULES['square'] = ew(lambda a: a * a)
RULES['stop_gradient'] = lambda ctx, eqn, a: a
RULES['copy'] = lambda ctx, eqn, a: a
RULES['copy_p'] = lambda ctx, eqn, a: a


def r_integer_pow(ctx, eqn, a):
    y = eqn.params['y']
    def f(v):
        if y >= 0:
            r = 1
            for _ in range(y):
                r = r * v
            return r
        r = 1
        for _ in range(-y):
            r = r * v
        return 1 / r
    return ew(f)(ctx, eqn, a)
RULES['integer_pow'] = r_integer_pow


def r_select_n(ctx, eqn, c, *cases):
    if len(cases) == 2:
        # select_n(pred, false_case, true_case)
        return ew(lambda p, f, t: _ite(p, t, f))(ctx, eqn, c, cases[0], cases[1])
    raise NotImplementedError
RULES['select_n'] = r_select_n


def r_convert(ctx, eqn, a):
    new = np.dtype(eqn.params['new_dtype']).kind
    old = np.dtype(eqn.invars[0].aval.dtype).kind
    if new == 'f' and old in 'biu':
        return ew(tof)(ctx, eqn, a)
    if new == old or (new in 'iu' and old in 'iu'):
        return a
    if new in 'iu' and old == 'b':
        return ew(lambda v: _ite(v, 1, 0))(ctx, eqn, a)
    raise NotImplementedError((old, new))
RULES['convert_element_type'] = r_convert


def r_broadcast_in_dim(ctx, eqn, a, *dyn):
    shape = eqn.params['shape']; bdims = eqn.params['broadcast_dimensions']
    a = np.asarray(a, dtype=object)
    newshape = [1] * len(shape)
    for i, d in enumerate(bdims):
        newshape[d] = a.shape[i]
    return np.broadcast_to(a.reshape(newshape), shape).copy()
RULES['broadcast_in_dim'] = r_broadcast_in_dim


def r_reduce_sum(ctx, eqn, a):
    axes = eqn.params['axes']
    a = np.asarray(a, dtype=object)
    return np.asarray(np.sum(a, axis=tuple(axes)), dtype=object) if a.size else np.zeros((), dtype=object)
RULES['reduce_sum'] = r_reduce_sum


def r_stack(ctx, eqn, *xs):
    return np.stack([np.asarray(x, dtype=object) for x in xs], axis=eqn.params['axis'])
RULES['stack'] = r_stack
RULES['concatenate'] = lambda ctx, eqn, *xs: np.concatenate([np.asarray(x, dtype=object) for x in xs], axis=eqn.params['dimension'])
RULES['reshape'] = lambda ctx, eqn, a, *d: np.asarray(a, dtype=object).reshape(eqn.params['new_sizes'])
RULES['squeeze'] = lambda ctx, eqn, a: np.squeeze(np.asarray(a, dtype=object), axis=tuple(eqn.params['dimensions']))


def r_pjit(ctx, eqn, *args):
    j = eqn.params['jaxpr']
    return eval_jaxpr(ctx, j, j.consts, *args)
RULES['pjit'] = r_pjit
RULES['jit'] = r_pjit


def r_sample(ctx, eqn, *args):
    prim, inner = PPPrimitive.unwrap(eqn.primitive)
    outs = [ctx.fresh_like(v.aval, "s") for v in eqn.outvars]
    ctx.sites.append(dict(name=eqn.params.get('name'), args=args, outs=outs,
                          sample_shape=inner.get('sample_shape'), sampler=inner.get('keyful_sampler')))
    return outs


def r_log_density(ctx, eqn, *args):
    prim, inner = PPPrimitive.unwrap(eqn.primitive)
    impl = inner['impl']
    avals = [v.aval for v in eqn.invars]
    closed = jax.make_jaxpr(lambda *a: impl(*a, **{k: v for k, v in inner.items() if k != 'impl'}))(
        *[jax.ShapeDtypeStruct(a.shape, a.dtype) for a in avals])
    return eval_jaxpr(ctx, closed.jaxpr, closed.consts, *args)


def eval_jaxpr(ctx, jaxpr, consts, *args):
    env = {}
    def read(v):
        if isinstance(v, Literal):
            return arr(v.val)
        return env[v]
    for v, c in zip(jaxpr.constvars, consts):
        env[v] = arr(np.asarray(c))
    assert len(jaxpr.invars) == len(args), (len(jaxpr.invars), len(args))
    for v, a in zip(jaxpr.invars, args):
        env[v] = np.asarray(a, dtype=object)
    for eqn in jaxpr.eqns:
        invals = [read(v) for v in eqn.invars]
        prim, inner = PPPrimitive.unwrap(eqn.primitive)
        if prim in (sample_p, adev_sample_p):
            outs = r_sample(ctx, eqn, *invals)
        elif prim is log_density_p:
            outs = r_log_density(ctx, eqn, *invals)
        else:
            name = eqn.primitive.name
            if name not in RULES:
                raise NotImplementedError(f"primitive {name}: {eqn}")
            outs = RULES[name](ctx, eqn, *invals)
            if not eqn.primitive.multiple_results:
                outs = [outs]
        for v, o in zip(eqn.outvars, outs):
            env[v] = np.asarray(o, dtype=object)
    return [read(v) for v in jaxpr.outvars]


def sym_trace(fn, *example_args, prefix="a"):
    """Trace fn at example_args' avals; return (ctx, sym_inputs(list of arrays), outputs pytree of object arrays)."""
    closed = jax.make_jaxpr(fn, return_shape=True)(*example_args)
    closed, out_shape = closed
    ctx = Ctx()
    flat_in, in_tree = jax.tree_util.tree_flatten(example_args)
    sym_in = []
    for i, (v, x) in enumerate(zip(closed.jaxpr.invars, flat_in)):
        sym_in.append(ctx.fresh_like(v.aval, f"{prefix}{i}_"))
    outs = eval_jaxpr(ctx, closed.jaxpr, closed.consts, *sym_in)
    out_tree = jax.tree_util.tree_structure(out_shape)
    return ctx, jax.tree_util.tree_unflatten(in_tree, sym_in), jax.tree_util.tree_unflatten(out_tree, outs), closed

RULES['log1p'] = ew(lambda a: Log(1 + a))
RULES['expm1'] = ew(lambda a: Exp(a) - 1)
Xlogy = z3.Function("Xlogy", RealS, RealS, RealS)
RULES['xlogy'] = ew(lambda a, b: tof(a) * Log(tof(b)))
RULES['xlog1py'] = ew(lambda a, b: tof(a) * Log(1 + tof(b)))
RULES['is_finite'] = ew(lambda a: True)
RULES['abs'] = ew(lambda a: _ite(a >= 0, a, -a))
RULES['sqrt'] = ew(lambda a: z3.Function("Sqrt", RealS, RealS)(a))


def r_scan(ctx, eqn, *args):
    p = eqn.params
    consts_ft, carry_ft, xs_ft = p['ft_in'].unpack()
    nc, nk = len(list(consts_ft)), len(list(carry_ft))
    consts, carry, xs = list(args[:nc]), list(args[nc:nc + nk]), list(args[nc + nk:])
    body = p['jaxpr']; L = p['length']
    ys_acc = None
    order = range(L - 1, -1, -1) if p['reverse'] else range(L)
    per_iter = {}
    for i in order:
        xi = [np.asarray(x, dtype=object)[i] for x in xs]
        outs = eval_jaxpr(ctx, body, body.consts, *consts, *carry, *xi)
        carry = outs[:nk]
        per_iter[i] = outs[nk:]
    ys = []
    nys = len(body.outvars) - nk
    for j in range(nys):
        if L == 0:
            ys.append(np.zeros((0,) + tuple(body.outvars[nk + j].aval.shape), dtype=object))
        else:
            ys.append(np.stack([np.asarray(per_iter[i][j], dtype=object) for i in range(L)], axis=0))
    return list(carry) + ys
RULES['scan'] = r_scan


def r_cond(ctx, eqn, idx, *ops):
    branches = eqn.params['branches']
    outs = [eval_jaxpr(ctx, b, b.consts, *ops) for b in branches]
    idx = np.asarray(idx, dtype=object).item()
    res = []
    for k in range(len(outs[0])):
        acc = outs[-1][k]
        for bi in range(len(branches) - 2, -1, -1):
            acc = ew(lambda a, b, bi=bi: _ite(idx == bi if not isinstance(idx, bool) else (idx == bool(bi)), a, b))(ctx, eqn, outs[bi][k], acc)
        res.append(acc)
    return res
RULES['cond'] = r_cond

RULES['iota'] = lambda ctx, eqn: arr(np.arange(eqn.params['shape'][eqn.params['dimension']]).reshape([-1 if d == eqn.params['dimension'] else 1 for d in range(len(eqn.params['shape']))]) * np.ones(eqn.params['shape'], dtype=int)) if np.dtype(eqn.params['dtype']).kind in 'iu' else arr((np.arange(eqn.params['shape'][eqn.params['dimension']]).reshape([-1 if d == eqn.params['dimension'] else 1 for d in range(len(eqn.params['shape']))]) * np.ones(eqn.params['shape'])).astype(float))
RULES['unstack'] = lambda ctx, eqn, a: [x for x in np.moveaxis(np.asarray(a, dtype=object), eqn.params['axis'], 0)]
RULES['transpose'] = lambda ctx, eqn, a: np.transpose(np.asarray(a, dtype=object), eqn.params['permutation'])
RULES['pow'] = None
del RULES['pow']

def r_custom_jvp(ctx, eqn, *args):
    j = eqn.params['call_jaxpr']
    return eval_jaxpr(ctx, j, j.consts, *args)
RULES['custom_jvp_call'] = r_custom_jvp
RULES['add_any'] = ew(lambda a, b: a + b)

def r_slice(ctx, eqn, a):
    a = np.asarray(a, dtype=object)
    st = eqn.params['start_indices']; li = eqn.params['limit_indices']; sr = eqn.params['strides'] or (1,) * a.ndim
    return a[tuple(slice(s, l, k) for s, l, k in zip(st, li, sr))]
RULES['slice'] = r_slice
