import sys
for _h in sys.path_hooks:
    if not hasattr(_h, "__qualname__"):
        try: _h.__qualname__ = type(_h).__name__
        except Exception: pass
sys.path.insert(0,'/tmp/vshim'); import jaxshim_plugin
import warnings
import genjax.pjax as pjax

class _Boom(Exception):
    pass

def lowering_decision(enforce: bool, warn: bool, has_exc: bool, has_warn: bool) -> str:
    """
    post: implies(enforce and not warn and has_exc, _ == "raised-carried")
    post: implies(has_exc and enforce and not (warn and has_warn), _ == "raised-carried")
    """
    pjax.enforce_lowering_exception = enforce
    pjax.lowering_warning = warn
    params = {}
    if has_exc:
        params["lowering_exception"] = _Boom("carried")
    if has_warn:
        params["lowering_warning"] = "msg"
    try:
        with warnings.catch_warnings():
            warnings.simplefilter("ignore")
            pjax.sample_p.lowering(None, **params)
    except _Boom:
        return "raised-carried"
    except Exception:
        return "fell-through"
    finally:
        pjax.enforce_lowering_exception = True
        pjax.lowering_warning = False
    return "lowered"
