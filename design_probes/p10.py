import time
from symlog import *
import symjax
from genjax.inference.smc import systematic_resample
import jax.scipy.special as jss
# 1. logsumexp identity
ctx = Ctx()
Pv = [z3.Real(f"P{i}") for i in range(3)]
lw = np.array([Log(p) for p in Pv], dtype=object)
cj = jax.make_jaxpr(lambda l: jss.logsumexp(l) - jnp.log(3))(jnp.zeros(3))
(out,) = eval_jaxpr(ctx, cj.jaxpr, cj.consts, lw)
print("lme:", out)
s = z3.Solver(); s.add(*[p > 0 for p in Pv])
t = out.item(); assert is_log(t)
s.add(z3.Not(P(t) == sum(Pv) / 3)); t0=time.time(); print("logmeanexp == log(mean P):", s.check(), round(time.time()-t0,3))
# 2. systematic resample from the real code
cj = jax.make_jaxpr(lambda l: systematic_resample(l, 3))(jnp.zeros(3))
ctx = Ctx()
(idx,) = eval_jaxpr(ctx, cj.jaxpr, cj.consts, lw)
u = ctx.sites[0]['outs'][0].item()
print("idx[0] =", idx[0])
N = 3; S = sum(Pv); W = [p / S for p in Pv]
cnt = [sum([z3.If(idx[j] == i, 1, 0) for j in range(N)]) for i in range(N)]
s = z3.Solver(); s.set("timeout", 120000); s.add(*[p > 0 for p in Pv]); s.add(u > 0, u < 1)
s.add(z3.Or(*[z3.Or(z3.ToReal(cnt[i]) <= N * W[i] - 1, z3.ToReal(cnt[i]) >= N * W[i] + 1) for i in range(N)]))
t0=time.time(); print("real-code systematic floor/ceil:", s.check(), round(time.time()-t0,3))
m = s.model()
vals = {str(d): m[d] for d in m.decls() if d.arity() == 0}
print(vals)
def fl(x): return float(x.numerator_as_long()) / float(x.denominator_as_long())
pv = [fl(m.eval(p, model_completion=True)) for p in Pv]; uv = fl(m.eval(u, model_completion=True))
print("P", pv, "u", uv, "idx model", [m.eval(i) for i in idx], "cnt", [m.eval(c) for c in cnt])
import numpy as onp
w = onp.array(pv) / sum(pv); print("N*w", 3 * w, "cumsum", onp.cumsum(w), "pos", (onp.arange(3) + uv) / 3, "searchsorted", onp.searchsorted(onp.cumsum(w), (onp.arange(3) + uv) / 3))
