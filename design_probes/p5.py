import time
from symjax import *
import jax.random as jrand
from genjax import gen, normal, flip, seed, Scan, Cond, const, sel
from genjax.inference.mcmc import mala, mh, hmc
from genjax.state import state
@gen
def model(mu):
    x = normal(mu, 1.0) @ "x"
    y = normal(x, 0.5) @ "y"
    return x
tr0, _ = model.generate({"x": 0.2, "y": 1.0}, 0.0)
TAU = 0.5
def step(tr):
    new, st = state(lambda t: mala(t, sel("x"), TAU))(tr)
    return new.get_choices(), new.get_score(), st["accept"], tr.get_choices(), tr.get_args()
t0=time.time()
ctx, sin, outs, closed = sym_trace(step, tr0)
print("traced in", time.time()-t0)
newch, newscore, accept, oldch, oldargs = outs
print("sites", [(s['name'], s['args'], s['outs']) for s in ctx.sites])
eps = ctx.sites[0]['outs'][0].item(); u = ctx.sites[1]['outs'][0].item()
x = oldch['x'].item(); y = oldch['y'].item(); mu = oldargs[0][0].item()
# reference (independent): log p(x,y;mu) = N(x;mu,1) + N(y;x,0.5)
C = z3.RealVal("7708615/8388608")
def lnorm(v, m, s, logs):  # logs = Log(s) term
    return -((v-m)/s)*((v-m)/s)/2 - C - logs
L1 = Log(z3.RealVal(1)); Lh = Log(z3.RealVal("1/2"))
def logp(xx): return lnorm(xx, mu, 1, L1) + lnorm(y, xx, z3.RealVal("1/2"), Lh)
def grad(xx): return -(xx-mu) + (y-xx)*4
tau = z3.RealVal("1/2")
xp = x + tau*tau/2*grad(x) + tau*eps
fwd = lnorm(xp, x + tau*tau/2*grad(x), tau, Lh)
bwd = lnorm(x, xp + tau*tau/2*grad(xp), tau, Lh)
alpha = logp(xp) - logp(x) + bwd - fwd
acc_ref = Log(u) < z3.If(alpha < 0, alpha, 0)
s = z3.Solver()
s.add(z3.Not(accept.item() == acc_ref))
t0=time.time(); print("accept rule equiv:", s.check(), time.time()-t0)
s = z3.Solver()
s.add(z3.Not(newch['x'].item() == z3.If(acc_ref, xp, x)))
t0=time.time(); print("new x equiv:", s.check(), time.time()-t0)
# coherence: new score == -logp(new x)
s = z3.Solver()
nx = newch['x'].item()
s.add(z3.Not(newscore.item() == -(logp(nx))))
# precondition: old trace coherent
oldscore_leafs = sin
t0=time.time(); print("coherence w/o invariant assumption (expect sat):", s.check(), time.time()-t0)
# ---- with representation invariant on the input trace
import jax.tree_util as jtu
paths = [jtu.keystr(p) for p, _ in jtu.tree_flatten_with_path((tr0,))[0]]
for p, v in zip(paths, sin if isinstance(sin, list) else jtu.tree_leaves(sin)):
    print(p, v)
L = jtu.tree_leaves(sin)
g = lambda i: L[i].item()
inv = [g(1) == g(0), g(2) == 1, g(4) == g(3), g(5) == -lnorm(g(3), g(0), 1, L1),
       g(6) == g(3), g(7) == z3.RealVal("1/2"), g(9) == g(8), g(10) == -lnorm(g(8), g(3), z3.RealVal("1/2"), Lh),
       g(11) == g(3), g(12) == g(5) + g(10), u > 0, u < 1]
for name, goal in [("accept", accept.item() == acc_ref), ("newx", newch['x'].item() == z3.If(acc_ref, xp, x)),
                   ("coherent", newscore.item() == -(logp(newch['x'].item()))), ("y kept", newch['y'].item() == y)]:
    s = z3.Solver(); s.set("timeout", 60000)
    s.add(*inv); s.add(z3.Not(goal))
    t0 = time.time(); r = s.check(); print(name, r, round(time.time()-t0, 3))
    if str(r) == 'sat':
        m = s.model(); print({str(d): m[d] for d in m.decls()})
