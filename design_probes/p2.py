import time
from symjax import *
import jax.random as jrand
from genjax import gen, normal, flip, seed, Scan, Cond, const, sel, exponential
@gen
def inner(mu):
    return normal(mu, 1.0) @ "z"
@gen
def model(mu):
    x = normal(mu, 1.0) @ "x"
    b = flip(0.3) @ "b"
    y = inner.vmap(in_axes=(0,))(jnp.stack([x, x+1.0])) @ "ys"
    return x + jnp.sum(y)

def sim(mu):
    tr = model.simulate(mu)
    return tr.get_choices(), tr.get_score(), tr.get_retval()
t0=time.time()
ctx, sin, (ch, score, ret), cj = sym_trace(sim, 0.3)
print("choices", ch); print("score", score)
# now assess on those choices with same mu
def ass(ch, mu):
    return model.assess(ch, mu)
ex_ch = {"x": 0.1, "b": True, "ys": {"z": jnp.zeros(2)}}
cj2 = jax.make_jaxpr(ass)(ex_ch, 0.3)
ctx2 = Ctx()
flat_ch, tree = jax.tree_util.tree_flatten(ch)
logp, ret2 = eval_jaxpr(ctx2, cj2.jaxpr, cj2.consts, *flat_ch, sin[0])
s = z3.Solver()
s.add(z3.Not(score.item() + logp.item() == 0))
print("C01 score==-assess:", s.check(), time.time()-t0)
s = z3.Solver(); s.add(z3.Not(ret.item() == ret2.item())); print("retval:", s.check())
print("sites:", [(st['name'], st['args']) for st in ctx.sites])
