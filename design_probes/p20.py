import time
from symjax import *
from genjax import gen, normal, flip, seed, Scan, Cond, const, sel
@gen
def step(c, x):
    z = normal(c + x, 1.0) @ "z"
    return z * 2.0, z
sc = Scan(step, length=const(3))
@gen
def b0(m): return normal(m, 1.0) @ "v"
@gen
def b1(m): return normal(m + 5.0, 2.0) @ "v"
cd = Cond(b0, b1)
@gen
def model(mu, xs):
    a = normal(mu, 1.0) @ "a"
    fin, outs = sc(a, xs) @ "s"
    w = cd(fin > 0.0, outs[1]) @ "c"
    return w
ex_ch = {"a": 0.1, "s": {"z": jnp.zeros(3)}, "c": {"v": 0.2}}
def run(ch, mu, xs, mu2, xs2, newz):
    tr, w0 = model.generate(ch, mu, xs)
    tr2, w, d = model.update(tr, {"s": {"z": newz}}, mu2, xs2)
    return w0, tr.get_score(), w, tr2.get_score(), tr2.get_choices(), d
t0 = time.time()
ctx, sin, outs, cj = sym_trace(run, ex_ch, 0.3, jnp.zeros(3), 0.4, jnp.ones(3), jnp.zeros(3))
print("trace+encode", round(time.time() - t0, 2), "eqns", len(cj.jaxpr.eqns))
ch, mu, xs, mu2, xs2, newz = sin
w0, sc0, w, sc2, ch2, d = outs
C = z3.RealVal("7708615/8388608"); L1 = Log(z3.RealVal(1)); L2 = Log(z3.RealVal(2))
def ln(v, m, s, ls): return -((v / s - m / s) * (v / s - m / s)) / 2 - (C + ls)
def ref(a, z, v, mu, xs):
    lp = ln(a, mu, 1, L1); c = a
    outs_ = []
    for i in range(3):
        lp = lp + ln(z[i], c + xs[i], 1, L1); c = z[i] * 2; outs_.append(z[i])
    lp = lp + z3.If(c > 0, ln(v, outs_[1], 1, L1), ln(v, outs_[1] + 5, 2, L2))
    return lp
a = ch['a'].item(); z = [x for x in ch['s']['z']]; v = ch['c']['v'].item()
old = ref(a, z, v, mu.item(), list(xs)); new = ref(a, list(newz), v, mu2.item(), list(xs2))
for name, goal in [("generate weight == logp", w0.item() == old), ("score == -logp", sc0.item() == -old),
                   ("update weight == ratio (incl. branch switch)", w.item() == new - old),
                   ("new score", sc2.item() == -new)]:
    s = z3.Solver(); s.set("timeout", 60000); s.add(z3.Not(goal)); t0 = time.time(); r = s.check()
    print(name, r, round(time.time() - t0, 2))
    if str(r) == "sat" and "ratio" in name:
        m = s.model(); print("   cex:", {str(k): m[k] for k in m.decls() if k.arity() == 0})
# restrict to no branch switch
fin_old = z[2] * 2; fin_new = newz[2] * 2
s = z3.Solver(); s.set("timeout", 60000); s.add((fin_old > 0) == (fin_new > 0)); s.add(z3.Not(w.item() == new - old)); print("update weight, same branch:", s.check())
print("discard:", d)
