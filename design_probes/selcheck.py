import sys
for _h in sys.path_hooks:
    if not hasattr(_h, "__qualname__"):
        try:
            _h.__qualname__ = type(_h).__name__
        except Exception:
            pass
import sys; sys.path.insert(0,'/tmp/vshim'); import jaxshim_plugin
from genjax.core import sel, Selection

def selected(s: Selection, path: tuple) -> bool:
    cur = s
    hit = True
    for a in path:
        hit, cur = cur.match(a)
        if not hit:
            return False
    hit, _ = cur.match(())
    return hit

def or_law(n1: str, n2: str, p1: str, p2: str) -> bool:
    """
    pre: len(n1) <= 2 and len(n2) <= 2 and len(p1) <= 2 and len(p2) <= 2
    post: _
    """
    s = sel(n1); t = sel((n2, n1))
    lhs = selected(s | t, (p1, p2))
    return lhs == (selected(s, (p1, p2)) or selected(t, (p1, p2)))

def compl_law(n1: str, p1: str, p2: str) -> bool:
    """
    pre: len(n1) <= 2 and len(p1) <= 2 and len(p2) <= 2
    post: _
    """
    s = sel((n1, p2))
    return selected(~s, (p1, p2)) == (not selected(s, (p1, p2)))

def bogus(n1: str, p1: str) -> bool:
    """
    pre: len(n1) <= 2 and len(p1) <= 2
    post: _
    """
    return not selected(sel(n1), (p1,))
