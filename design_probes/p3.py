import sys; sys.path.insert(0,'/tmp/vshim'); import jaxshim_plugin
import jax, jax.numpy as jnp, jax.random as jrand, traceback
from genjax import gen, normal, flip, seed, Scan, Cond, const, sel, modular_vmap
from genjax.state import state, save, namespace
def attempt(name, f):
    try:
        print(name, "->", f())
    except Exception as e:
        print(name, "RAISED", type(e).__name__, str(e)[:200].replace("\n"," "))

@gen
def step(c, x):
    z = normal(c + x, 1.0) @ "z"
    return z, z
sc = Scan(step, length=const(3))
tr = seed(sc.simulate)(jrand.key(0), 0.0, jnp.arange(3.))
attempt("scan.regenerate sel z", lambda: seed(sc.regenerate)(jrand.key(1), tr, sel("z"), 0.0, jnp.arange(3.))[1])
attempt("scan.regenerate sel none", lambda: seed(sc.regenerate)(jrand.key(1), tr, sel(), 0.0, jnp.arange(3.))[1])
@gen
def m():
    r = sc(0.0, jnp.arange(3.)) @ "s"
    y = normal(0.0,1.0) @ "y"
    return y
trm = seed(m.simulate)(jrand.key(0))
attempt("fn-with-scan.regenerate sel y", lambda: seed(m.regenerate)(jrand.key(1), trm, sel("y"))[1])

# Cond update with branch switch
@gen
def b0(): return normal(0.0, 1.0) @ "v"
@gen
def b1(): return normal(5.0, 2.0) @ "v"
cd = Cond(b0, b1)
@gen
def cm(flag):
    return cd(flag) @ "c"
trc, _ = cm.generate({"c": {"v": 1.0}}, jnp.array(True))
print("old score", trc.get_score(), "assess", cm.assess({"c": {"v": 1.0}}, jnp.array(True))[0])
t2, w, d = cm.update(trc, None, jnp.array(False))
print("update weight", w, "expected", cm.assess({"c": {"v": 1.0}}, jnp.array(False))[0] - cm.assess({"c": {"v": 1.0}}, jnp.array(True))[0], "discard", d)
t3, w3, d3 = cm.update(trc, {"c": {"v": 2.0}}, jnp.array(True))
print("update same-branch weight", w3, "expected", cm.assess({"c": {"v": 2.0}}, jnp.array(True))[0] - cm.assess({"c": {"v": 1.0}}, jnp.array(True))[0], "discard", d3)
# Cond over distributions directly
cdd = Cond(normal, normal)
@gen
def cm2(flag):
    return cdd(flag, 0.0, 1.0) @ "c"
attempt("cond-of-dist update", lambda: cm2.update(cm2.generate({"c": 1.0}, jnp.array(True))[0], {"c": 2.0}, jnp.array(True))[1])

# vmap default in_axes int
attempt("normal.vmap() assess int in_axes", lambda: normal.vmap().assess(jnp.zeros(3), jnp.zeros(3), jnp.ones(3)))
attempt("normal.vmap(in_axes=(0,None)) assess", lambda: normal.vmap(in_axes=(0,None)).assess(jnp.zeros(3), jnp.zeros(3), 1.0))
# modular_vmap with in_axes=1
def f(mu): return normal.sample(mu, 1.0)
mu = jnp.array([[0., 100., 200.],[1000., 1100., 1200.]])  # shape (2,3)
attempt("modular_vmap in_axes=1", lambda: seed(modular_vmap(f, in_axes=1))(jrand.key(0), mu))
attempt("jax.vmap det in_axes=1", lambda: jax.vmap(lambda m: m+0.0, in_axes=1)(mu))
# differing rank
def g(mu, sig): return normal.sample(mu, sig)
attempt("modular_vmap rank-differ", lambda: seed(modular_vmap(g, in_axes=(0,None)))(jrand.key(0), jnp.array([0.,100.,200.]), jnp.array([1.,1.])).shape)
attempt("modular_vmap rank-differ N==K", lambda: seed(modular_vmap(g, in_axes=(0,None)))(jrand.key(0), jnp.array([0.,100.]), jnp.array([1.,1.])))

# state namespace around scan
def body(c, x):
    save(v=c+x)
    return c+x, None
def prog(x):
    def inner(x):
        return jax.lax.scan(body, 0.0, x)[0]
    return namespace(inner, "ns")(x)
attempt("state ns around scan", lambda: state(prog)(jnp.arange(3.)))
