import sys; sys.path.insert(0,'/tmp/vshim'); import jaxshim_plugin
import jax, jax.numpy as jnp, jax.random as jrand
from genjax.adev import *
from genjax.adev import Dual
from genjax import seed
def T(name, f, *args):
    try:
        print("OK  ", name, f(*args))
    except Exception as e:
        print("FAIL", name, type(e).__name__, str(e)[:300].replace("\n", " "))
@expectation
def a(th):
    b = flip_enum_parallel(th)
    return jnp.where(b, 2.0, th * th)
T("fep grad eager", lambda: seed(a.grad_estimate)(jrand.key(0), 0.3))
T("fep grad traced", lambda: jax.make_jaxpr(a.grad_estimate)(0.3).jaxpr.eqns[:0])
@expectation
def c(th):
    k = categorical_enum_parallel(jnp.array([0.1, 0.2, 0.0]) * th)
    return k * th
T("cep grad", lambda: seed(c.grad_estimate)(jrand.key(0), 0.3))
@expectation
def ar(th):
    b = flip_enum_parallel(th); x = normal_reinforce(th, 1.0)
    return jnp.where(b, x, 1.0)
T("fep+reinforce", lambda: seed(ar.grad_estimate)(jrand.key(0), 0.3))
@expectation
def ar2(th):
    x = normal_reinforce(th, 1.0); b = flip_enum_parallel(th)
    return jnp.where(b, x, 1.0)
T("reinforce then fep", lambda: seed(ar2.grad_estimate)(jrand.key(0), 0.3))
