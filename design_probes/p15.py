import sys; sys.path.insert(0,'/tmp/vshim'); import jaxshim_plugin
import jax, jax.numpy as jnp, jax.random as jrand
from genjax import normal, seed
import genjax.pjax as pjax
def T(name, f):
    try:
        print("OK  ", name, f())
    except Exception as e:
        print("RAISED", name, type(e).__name__, str(e)[:120].replace("\n", " "))
def w(x):
    return jax.lax.while_loop(lambda c: c[0] < 3, lambda c: (c[0] + 1, c[1] + normal.sample(0.0, 1.0)), (0, x))[1]
T("seed(while) eager k0", lambda: seed(w)(jrand.key(0), 0.0))
T("seed(while) eager k0 again", lambda: seed(w)(jrand.key(0), 0.0))
T("seed(while) eager k1", lambda: seed(w)(jrand.key(1), 0.0))
T("jit(seed(while))", lambda: jax.jit(seed(w))(jrand.key(0), 0.0))
def has_site(j):
    for e in j.eqns:
        if 'pjax.sample' in e.primitive.name: return True
        for v in e.params.values():
            if hasattr(v, 'eqns') and has_site(v): return True
            if isinstance(v, (tuple, list)) and any(hasattr(b, 'eqns') and has_site(b) for b in v): return True
    return False
print("residual site in seed(while) IR:", has_site(jax.make_jaxpr(seed(w))(jrand.key(0), 0.0).jaxpr))
def fl(x): return jax.lax.fori_loop(0, 3, lambda i, c: c + normal.sample(0.0, 1.0), x)
print("residual site in seed(fori) IR:", has_site(jax.make_jaxpr(seed(fl))(jrand.key(0), 0.0).jaxpr))
T("seed(fori) eager k0", lambda: (seed(fl)(jrand.key(0), 0.0), seed(fl)(jrand.key(0), 0.0)))
def g(x): return x + normal.sample(0.0, 1.0)
T("jit(unseeded)", lambda: jax.jit(g)(0.0))
T("lower(unseeded)", lambda: jax.jit(g).lower(0.0))
T("vmap(unseeded)", lambda: jax.vmap(g)(jnp.zeros(2)))
T("grad(unseeded) eager", lambda: jax.grad(g)(0.0))
T("jit(grad(unseeded))", lambda: jax.jit(jax.grad(g))(0.0))
T("scan(unseeded) eager", lambda: jax.lax.scan(lambda c, _: (g(c), None), 0.0, None, length=2)[0])
T("cond(unseeded) eager", lambda: jax.lax.cond(True, g, lambda x: x, 0.0))
