#!/usr/bin/env python3
"""try_mutant.py <mutant_dir> <prop> [<prop> ...]: in a scratch worktree of /repo (VERIF_WT, default /tmp/mut/test_wt) confirm the
demo (passes clean / fails mutated), apply the patch, run the listed quick checks against that worktree (VERIF_REPO), revert."""
import json, os, subprocess, sys, time
mdir, props = sys.argv[1], sys.argv[2:]
WT = os.environ.get("VERIF_WT", "/tmp/mut/test_wt")
if not os.path.isdir(WT):
    subprocess.run(["git", "-C", "/repo", "worktree", "add", "-q", "--detach", WT, "HEAD"], check=True)
subprocess.run(["git", "-C", WT, "checkout", "-q", "--detach", subprocess.run(["git", "-C", "/repo", "rev-parse", "HEAD"], capture_output=True, text=True).stdout.strip()], check=True)
patch = os.path.join(mdir, "patch.diff")
demo = os.path.join(mdir, "demo.py")
env = dict(os.environ, PYTHONPATH=f"{WT}/src:/tmp/mut/shim", JAX_PLATFORMS="cpu")
def run_demo():
    if not os.path.exists(demo):
        return None
    p = subprocess.run(["/venv/bin/python", demo], env=env, capture_output=True, text=True, timeout=1800)
    return p.returncode
subprocess.run(["git", "-C", WT, "checkout", "--", "."], check=True)
clean = run_demo()
r = subprocess.run(["git", "-C", WT, "apply", patch], capture_output=True, text=True)
if r.returncode != 0:
    print("APPLY-FAILED", r.stderr[:300]); sys.exit(3)
out = {"mutant": mdir, "demo_clean": clean}
try:
    out["demo_mutated"] = run_demo()
    for p in props:
        t0 = time.time()
        q = subprocess.run(["/verif/vcheck", p, "--tier", "quick"], capture_output=True, text=True, timeout=3600, cwd="/verif",
                           env=dict(os.environ, VERIF_REPO=WT, VERIF_NO_EVIDENCE="1"))
        viol = [l for l in q.stdout.splitlines() if l.startswith("VIOLATION")]
        obl = [l.strip() for l in q.stdout.splitlines() if l.strip().startswith("obligation:")]
        inc = [l for l in q.stdout.splitlines() if l.startswith("INCONCLUSIVE") or l.startswith("HARNESS-ERROR")]
        out[p] = {"exit": q.returncode, "violations": len(viol), "first": obl[:2], "inconclusive": len(inc), "inc_first": inc[:1], "wall": round(time.time() - t0)}
        print(f"  {p}: exit={q.returncode} violations={len(viol)} inconclusive={len(inc)} {obl[:1]} {inc[:1]}")
finally:
    subprocess.run(["git", "-C", WT, "checkout", "--", "."], check=True)
print(json.dumps(out))
json.dump(out, open(os.path.join(mdir, "verif_result.json"), "w"), indent=1)
