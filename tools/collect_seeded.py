#!/usr/bin/env python3
"""Copy confirmed seeded changes (demo passes clean / fails mutated, confirmed by tools/try_mutant.py) into /verif/seeded/<id>/"""
import json, os, shutil, glob
ROOT = "/verif/seeded"
os.makedirs(ROOT, exist_ok=True)
for d in sorted(glob.glob("/tmp/mut/out_*/m*")):
    res = os.path.join(d, "verif_result.json")
    if not os.path.exists(res) or not os.path.exists(os.path.join(d, "patch.diff")):
        continue
    r = json.load(open(res))
    if r.get("demo_clean") != 0 or r.get("demo_mutated") in (0, None):
        print("skip (demo not confirmed):", d, r.get("demo_clean"), r.get("demo_mutated"))
        continue
    prop = os.path.basename(os.path.dirname(d)).replace("out_", "")
    name = f"{prop}_{os.path.basename(d)}"
    out = os.path.join(ROOT, name)
    os.makedirs(out, exist_ok=True)
    shutil.copy(os.path.join(d, "patch.diff"), out)
    if os.path.exists(os.path.join(d, "demo.py")):
        shutil.copy(os.path.join(d, "demo.py"), out)
    meta = {}
    try:
        meta = json.load(open(os.path.join(d, "meta.json")))
    except Exception:
        pass
    checks = {k: v for k, v in r.items() if k.startswith("C")}
    prev = {}
    if os.path.exists(os.path.join(out, "meta.json")):
        prev = json.load(open(os.path.join(out, "meta.json"))).get("checks_run", {})
    prev.update(checks)
    caught = sorted(k for k, v in prev.items() if v.get("exit") == 1 and v.get("violations", 0) > 0)
    keep = {}
    if os.path.exists(os.path.join(out, "meta.json")):
        old_meta = json.load(open(os.path.join(out, "meta.json")))
        keep = {k: v for k, v in old_meta.items() if k in ("missed_initially", "strengthening", "not_caught_reason", "note")}
    json.dump({**keep,
        "property": meta.get("property", prop), "summary": meta.get("summary"), "needs": meta.get("needs"), "files": meta.get("files"),
        "baseline_passed_before": meta.get("baseline_passed_before"), "baseline_passed_after": meta.get("baseline_passed_after"),
        "confirmed": {"demo_on_unchanged_tree_exit": r["demo_clean"], "demo_with_patch_exit": r["demo_mutated"],
                      "how": "tools/try_mutant.py: scratch worktree of /repo at HEAD, demo run clean and with patch.diff applied (PYTHONPATH=<wt>/src + compat shim), then ./vcheck <id> --tier quick with VERIF_REPO=<wt>; worktree reverted afterwards"},
        "checks_run": prev, "caught_by": caught,
    }, open(os.path.join(out, "meta.json"), "w"), indent=1)
    print(name, "caught_by", caught)
