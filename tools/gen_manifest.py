#!/usr/bin/env python3
"""Regenerate /verif/MANIFEST.json from the table below (kept in one place so it is always valid)."""
import json, os
ROOT = os.path.dirname(os.path.dirname(os.path.abspath(__file__)))
props = [json.loads(l) for l in open(os.path.join(ROOT, 'properties.jsonl'))]

MC = "model_checking"
NOTE = ("Trusted base: harness-side JAX compat shim (vlib/jaxcompat.py); JAX tracing as symbolic execution of the Python source; "
        "primitive semantics as encoded in vlib/symjax.py (validated against the real primitives on every traced program); floats as reals; "
        "TFP's documented contracts; z3. Bounds are listed in the evidence file; outside them nothing is claimed.")
CHECKS = {
 "C01": dict(technique="Jaxpr-to-SMT symbolic execution of assess/simulate (z3), oracle = reference denotational semantics; site-law obligations on sample-site records",
             text="Bounded symbolic checking: for each corpus program the real assess/simulate (plain, under seed, jit, modular_vmap) are traced to Jaxpr and encoded in z3; density, return value, score = -assess, trace coherence and per-site laws (family, parameters as terms, independence = distinct outcome variables) are proved for ALL argument/choice/outcome values of the traced shapes. Address-collision detection is decided at trace time (value independent).", ref="3 C01"),
 "C02": dict(technique="Jaxpr-to-SMT symbolic execution of generate per constraint subset (z3); finite-sum expectation identity for a Bernoulli program",
             text="For every subset of the address set (<=5 addresses) generate is traced and the weight, the constrained values (same term as the input), the laws of the unconstrained sites and the coherence of the result are proved for all values; E[exp w]=p(constraints) is discharged in the solver for a Bernoulli program and is the importance-sampling corollary elsewhere.", ref="3 C02"),
 "C03": dict(technique="inductive step over an arbitrary coherent trace: Jaxpr-to-SMT encoding of update (z3), Cond conditions free",
             text="One update from a symbolic pre-state constrained only by the coherent-trace invariant, with independent old/new arguments and every constraint subset: coherence of the result, weight = density ratio (branch switches inside the quantifier), discard = old visible values, round trip restores choices with negated weight, Trace.update == explicit call.", ref="3 C03"),
 "C04": dict(technique="inductive step over an arbitrary coherent trace: Jaxpr-to-SMT encoding of regenerate per enumerated selection (z3); definedness decided at trace time",
             text="For each program x selection (none, all, leaves in tuple/dict form, whole sub-calls, complement, union, intersection): tracing must succeed (definedness for all values), unselected leaves are the same term as before, selected leaves are fresh draws with the right law w.r.t. the new parents, weight formula under equal Cond conditions, discard, coherence.", ref="3 C04"),
 "C06": dict(technique="2-safety over hidden process state on the Jaxpr of seed(f): free key algebra (z3 datatypes) + uninterpreted random bits, IR equality queries",
             text="seed(f) is traced with a symbolic key and symbolic arguments; the IR is regenerated in perturbed process states (global counter values, interleaved seeded/unseeded draws, cold/warm caches - enumerated) and proved equal for ALL keys and arguments; every key whose bits are drawn derives from the key argument; jit(seed(f)) and each lane of vmap(seed(f)) over keys are proved equal to seed(f). A counter-leaking twin must be refuted.", ref="3 C06"),
 "C07": dict(technique="key-derivation analysis on the seeded Jaxpr: z3 datatype queries for pairwise key distinctness, symbolic-iteration-index scan analysis, equality of each draw with the documented TFP sampler on its own sub-key",
             text="On the IR of seeded runs: no two draws use the same key, a drawn key is never also split/folded, no key split twice (exclusive cond branches excepted); every scan body is analysed with a symbolic iteration index (i != j => different keys, any length); each choice equals the documented TFP sampler applied to its own sub-key and the reference parameters (lanes = elements of one batched draw with per-lane parameters, each with own bits).", ref="3 C07"),
 "C16": dict(technique="CrossHair symbolic execution (z3) of the real Selection.match / sel / Fn.filter / Fn.merge with symbolic names, paths and choice-map shapes; symjax for gf.filter on combinators",
             text="For ~45 enumerated selection-expression shapes (nesting <= 2) CrossHair confirms over all paths that following the real match chain selects a path iff the documented meaning does (Boolean algebra laws are the pointwise consequences); Fn.filter/Fn.merge partition law on nested dicts with symbolic keys; gf.filter on corpus programs (through modular_vmap) yields exactly the leaves selected per the documented meaning.", ref="3 C16"),
 "C14": dict(level="other", technique="CrossHair (z3) on the real lowering rule with symbolic flags; per placement: abstract lowering of the traced IR (value independent) and key-provenance analysis of the symjax-encoded seed(f) IR",
             text="(1) CrossHair confirms over all paths that the lowering rule raises the carried exception under the default flags. (2) For each placement (jit, scan, while, fori, cond, switch, map, grad, remat, custom_jvp/vjp, nested jit, depth-2 compositions) abstract lowering - no values, hence valid for all inputs - must raise the dedicated error, and running constructs that compile their body must raise too; plain jax.vmap over a site must raise. (3) seed(f): the encoded IR has no residual site at any depth and every drawn key derives from the key argument (a constant key = hidden randomness), or tracing raised the dedicated error. Level 'other': (2) executes the real lowering rule on the IR rather than a solver query.", ref="3 C14"),
 "C12": dict(technique="Jaxpr-to-SMT encoding of resample / systematic_resample in log-domain mode (z3 nonlinear real arithmetic): inverse-CDF characterisation, floor/ceil bound, copy faithfulness, estimate preservation",
             text="The real systematic_resample (logsumexp, cumsum, searchsorted's binary-search scan) is encoded with weights Log(P_i) and the offset u symbolic: indices in range, idx_j = inverse CDF of (j+u)/N, counts sum to N and lie in (N w_i - 1, N w_i + 1) for ALL weights and ALL u in (0,1); E[count_i] = N w_i as an interval-length identity; resample(): every output particle equals ONE input particle on all trace leaves, weights reset to 0, log_marginal_likelihood() unchanged, diagnostic weights = normalised old weights; categorical: the index site is categorical(logits = log weights up to a constant) with sample_shape (N,).", ref="3 C12"),
 "C09": dict(technique="inductive kernel step: Jaxpr-to-SMT encoding of mh/mala/hmc from an arbitrary coherent trace (z3 NRA, case split on Cond conditions); oracle = Metropolis-Hastings rule from the reference density and jax.grad of an independent pure-JAX evaluator",
             text="One kernel step with all internal randomness symbolic: the rejected result is the input trace term-for-term; the proposed trace equals the reference proposal (regenerate-from-prior with site laws for mh; x + step^2/2 grad + step*eps with one N(0,1) draw per COORDINATE for mala; L leapfrog steps from fresh per-coordinate momentum for hmc) and is coherent; the applied log acceptance threshold equals min(0, log MH ratio) of that proposal, including the mixture-indicator branch switch. Detailed balance is then the MH theorem.", ref="3 C09"),
 "C10": dict(technique="Jaxpr-to-SMT encoding of init/extend/change/rejuvenate/log_marginal_likelihood/estimate/rejuvenation_smc from a symbolic particle collection (z3), per-particle weight identity against reference densities",
             text="Each SMC move is traced on a symbolic collection (arbitrary weights, arbitrary coherent vectorised trace): per particle, the new trace is coherent and holds the observation, the log weight equals old weight + log p(choices, obs) - log q(proposed choices) for the model's own proposal and for user-supplied init/extension proposals, proposed values are N distinct draws with the right parameters, rejuvenation leaves weights untouched, log_marginal_likelihood and estimate have their closed forms (log-domain), and rejuvenation_smc (cond + scan) equals the hand composition step by step. Unbiasedness of the evidence is the corollary.", ref="3 C10"),
 "C05": dict(technique="induction over the coherent-trace invariant (Jaxpr-to-SMT, z3) + explicit 2-3 operation compositions traced as one IR from a symbolic coherent start",
             text="Histories of any length are covered by induction: every operation maps an arbitrary coherent trace to a coherent trace (C03/C04/C09/C12 obligations plus, here, symbolic-index indexing of vectorised traces and jit round trips: same treedef, same leaf terms). As an independent cross-check, update -> regenerate -> mh compositions from a symbolic start stay coherent, never-selected addresses hold their original value, and chained update weights telescope.", ref="3 C05"),
 "C18": dict(technique="Jaxpr-to-SMT encoding of chain(kernel) for the (burn_in, thin) grid on shared outcome variables; IR equality queries (z3)",
             text="For every (burn_in, thin) with a non-empty result, the traces and accepts returned equal the slice [burn_in::thin] of the un-thinned run leaf by leaf on the same outcome variables; the un-thinned run equals the hand-iterated kernel state by state with accepts[i] the kernel's decision; acceptance_rate == mean(accepts); n_steps counts retained states; with n_chains=2 every leaf has a leading chain axis, each lane equals the single-chain IR on its own (distinct) outcome variables.", ref="3 C18"),
 "C19": dict(technique="Jaxpr-to-SMT encoding of state(f) vs f and vs a recorder twin (z3 equality queries for all inputs); CrossHair on the namespace-dict helpers",
             text="For 12 generated programs (repeated names, nested namespaces, scans incl. nested and with namespaces around/inside, vmap/modular_vmap, scan inside vmap, multi-value tag_state, leaf-mode save) state(f) returns f's result and a dictionary with exactly the reference names/nesting and leaf-wise equal values for all inputs, also under jit and seed.", ref="3 C19"),
 "C13": dict(technique="Jaxpr-to-SMT encoding of every wrapper's logpdf and seeded sampler vs the documented TFP object (z3 equality queries), hand-written closed forms, finite-support normalisation sums in log-domain mode",
             text="For all 24 exported distributions and user-wrapped tfp_distribution/distribution instances: logpdf equals the log density of the documented TFP object built with the documented parameter NAMES (argument wiring: probs vs logits, rate vs scale, alpha vs beta; swapped-parameter twins must be refuted), with the documented shape/dtype; closed forms for normal, exponential, uniform, flip, gamma, categorical, geometric (counts failures), binomial; sum of exp(logpmf) == 1 in the solver for flip, bernoulli, categorical K<=3, binomial n<=3; the seeded sampler (scalar, sample_shape, modular_vmap) equals the documented TFP sampler on the site's own sub-key for the 15 families without a rejection loop, shape/dtype/key provenance for the other 9.", ref="3 C13"),
 "C15": dict(technique="Jaxpr-to-SMT encoding of expectation(f).jvp_estimate/grad_estimate/estimate vs jax.jvp/jax.grad/f (z3 equality queries with shared uninterpreted transcendentals)",
             text="For 22 deterministic programs (arithmetic, transcendental, indexing/slicing/gather, reductions, dot/matmul/transpose, integer/boolean intermediates, dtype conversions, where, cond with either branch; scalar, array and pytree arguments) the primal, tangent and gradient terms of the ADEV transformation are proved equal to JAX's for ALL inputs and tangents, with equal shapes/dtypes; tracing must succeed for every argument shape (estimate included).", ref="3 C15"),
 "C11": dict(technique="Jaxpr-to-SMT encoding of ADEV estimate/jvp_estimate/grad_estimate (z3): enumeration vs exact finite sums, pathwise derivative identities, probability-weighted sums over discrete outcomes",
             text="For expectation programs over every primitive family: enumeration primitives (flip_enum, flip_enum_parallel, categorical_enum_parallel) give the exact expectation and derivative and do not depend on any outcome (zero variance); reparameterised primitives (normal, uniform, mvn-diag) give exactly d/dtheta f(g(noise;theta),theta) for the drawn noise and the noise site is theta-independent N(0,1)/U(0,1); discrete score-function / measure-valued primitives (flip_reinforce, flip_mvd, batched lane-wise variants) average over all outcomes to the exact derivative (rational identity over theta in (0,1)); normal_reinforce has the score-function form; compositions, cond continuations, and the same under jit(seed(.)) and modular_vmap.", ref="3 C11"),
 "C17": dict(technique="Jaxpr-to-SMT encoding of elbo_factory(...).estimate/grad_estimate and optimize_vi/elbo_vi (z3, nlsat portfolio): per-draw identities, conjugate tightness as a polynomial identity",
             text="estimate == log p(obs, z) - log q(z; phi) for every draw z (reparameterised and score-function families, also with a constraint overlapping the sampled address), so it is unbiased for E_q[log p - log q]; at the exact conjugate posterior (symbolic scales) it equals log p(obs) for every draw; grad_estimate equals the pathwise / score-function gradient of the reference per-draw objective; optimize_vi and elbo_vi, unrolled for <= 3 iterations, apply params + lr * gradient and return every iterate; the mean-field family works with array parameters.", ref="3 C17"),
}
NA = {}

checks = []
for p in props:
    pid = p['id']
    if pid in CHECKS:
        c = CHECKS[pid]
        checks.append({
            "property_id": pid,
            "quick_cmd": f"./vcheck {pid} --tier quick",
            "thorough_cmd": f"./vcheck {pid} --tier thorough",
            "evidence_file": f"evidence/{pid}.json",
            "replay_cmd_template": "./vcheck replay {path}",
            "engine": "symjax+z3" if 'CrossHair' not in c['technique'] else "symjax+z3, crosshair",
            "level_claimed": {"category": c.get('level', MC), "text": c['text'], "design_ref": "DESIGN.md section " + c['ref']},
            "level_note": NOTE,
            "technique": c['technique'],
        })
na = [{"property_id": p['id'], "reason": NA.get(p['id'], "check not built yet (build round in progress); planned, see DESIGN.md section 3")}
      for p in props if p['id'] not in CHECKS]
m = {
 "version": 1,
 "setup_cmd": "./bootstrap.sh",
 "hooks": {"guard": "GENJAX_VERIF", "enable": "no hooks: checks import /repo/src through the editable install in /venv; a harness-side JAX compat shim (vlib/jaxcompat.py, patches JAX only) is loaded before genjax",
           "baseline_off_cmd": "cd /repo && /venv/bin/python -m pytest -ra -q -p no:cacheprovider --timeout=900 --continue-on-collection-errors",
           "source_commits": [], "add_only": True},
 "engines": [{"name": "symjax+z3", "path": "vlib/symjax.py", "serves_properties": sorted(CHECKS), "kind_free_text": "Jaxpr (JAX IR of the real genjax code path) evaluated over z3 terms; bounded symbolic checking with z3 5.1, second opinion /usr/bin/z3 4.8.12"},
             {"name": "crosshair", "path": "vlib/ch", "serves_properties": [p for p in CHECKS if 'CrossHair' in CHECKS[p]['technique']], "kind_free_text": "CrossHair symbolic execution of pure-Python parts"}],
 "checks": checks,
 "notes": "Solver-based checking of the real code. ./vcheck <id> bootstraps /verif/.venv itself (overlay on /venv with z3-solver, cvc5, crosshair-tool from the offline wheelhouse). Exit 0 = held within bounds, 1 = VIOLATION (replayed on the real code), 2 = inconclusive/harness error.",
 "not_applicable": na,
}
json.dump(m, open(os.path.join(ROOT, 'MANIFEST.json'), 'w'), indent=1)
print("checks:", [c['property_id'] for c in checks], "na:", len(na))
