#!/usr/bin/env python3
"""Run the repository's pinned baseline (guard off: there are no hooks) and compare with BASELINE.json."""
import json, subprocess, sys, tempfile, os, xml.etree.ElementTree as ET
b = json.load(open('/root/.vp/BASELINE.json'))
with tempfile.TemporaryDirectory() as d:
    x = os.path.join(d, 'j.xml')
    cmd = b['cmd'].replace('<file>', x)
    subprocess.run(cmd, shell=True, stdout=subprocess.DEVNULL, stderr=subprocess.DEVNULL)
    passed = set()
    for tc in ET.parse(x).getroot().iter('testcase'):
        if not any(c.tag in ('failure', 'error', 'skipped') for c in tc):
            passed.add(f"{tc.get('classname')}::{tc.get('name')}")
missing = [t for t in b['stable_pass'] if t not in passed]
print(f"baseline: {len(b['stable_pass']) - len(missing)}/{len(b['stable_pass'])} stable tests pass; {len(passed)} pass in total")
for m in missing: print("  MISSING", m)
sys.exit(1 if missing else 0)
